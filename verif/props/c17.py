"""C17 - display attributes travel from markup to the terminal unchanged."""

from __future__ import annotations

import ast

from ..consteval import fold_module_name  # noqa: F401  (kept for table folding helpers)
from ..core import Ctx, RuleResult, finding, short, walk_no_nested
from ..model import AnalysisError, norm
from ..mutants import Mut
from ..rules import canv
from ..rules.defuse import DefUse
from ..rules.exc import ExcEngine
from ..rules.util import callee_name, cfg_of, node_exprs, nodes_where
from ..tables import CANV_EXCEPTIONS
from . import c02

EXPLANATION = (
    "Decided (necessary structural conditions of C17): (1) TAB: register_palette_entry builds the five specs of an entry with colour depths 16 / 1 / 88 / 256 / 2**24 and emits / stores "
    "them in that order; every consumer's depth->position map (raw display, HTML generator) sends each depth to the position of the spec built for it and covers all five depths; "
    "(2) palette notification: every store into a screen's palette is accompanied by an UPDATE_PALETTE_ENTRY emission for the same name, so the raw display has an escape sequence for "
    "every registered name (aliases included); (3) palette cache coherence: _pal_attrspec and _pal_escape are written together, and every method that changes a terminal property the "
    "cached escapes depend on (colors, fg_bright_is_bold, has_underline) rebuilds the cache for the whole palette on every path; (4) palette lookups by a canvas attribute are total "
    "(membership test or .get with a default): undefined names fall back instead of raising; (5) AttrMap.render selects the focus map only under `focus and _focus_map is not None` and "
    "applies the map to a fresh composite; (7) attribute remaps compose with .get(k, default), so a remap to None is kept; (8) FRESHLIST: applying a map never rewrites a shard list shared with the wrapped widget's "
    "cached canvas (otherwise the wrapper's attributes are baked into the child and survive a later set_attr_map); (6) CUTATTR: the space replacing a cut wide character keeps the cut character's attribute."
    ' Added after seed round 3: (9) FOCUS-FWD over all widget modules - a focus map further down is applied exactly when the widget is in focus because every container / decoration passes the flag on; (10) ACCUM on the rle walkers that cut attribute runs.'
    ' Round 4: (11) LOOPFRESH and (12) PAIRLEN on apply_text_layout / apply_target_encoding (attribute and charset run lengths are the length of the piece just appended); (13) no display code indexes a palette entry with a constant position.'
    ' Round-4 triage: (14) NONE-SENTINEL on attribute maps; (15) _tagmarkup_recurse reads the last run only when both run lists are non-empty; (16) the 88-colour fallback helper of register_palette_entry examines every comma-separated setting of a description. Round 5: (17) the rendition model of draw_screen (shared with C04.13); (18) LayoutSegment.offs (None = alignment padding, 0 = first character) is never tested for truthiness by its consumers; (19) every emitting branch of the segment loop of apply_text_layout records attribute and charset runs.'
    ' Round 6: (16) the hN bound of the 88-colour fallback lies between the number of basic colours and the number of leading colour numbers on which the folded 88- and 256-colour palettes agree; (20) INV restricted to Text / AttrMap / AttrWrap / SelectableIcon / Edit: every write of markup or attribute-map state invalidates (a retagged text with the same characters otherwise keeps its old attributes on screen).'
    ' (21) RUNPOS: the attribute runs _tagmarkup_recurse returns have a length shown positive - an empty string in the markup creates no run (fix f28b40b: the rendered row ended at the zero-length run).'
    ' Round 7: (22) = C04.3: whatever changes what a palette name means on the terminal (re-registering an entry) resets the screen buffer, so rows whose names and text did not change are repainted with the new colours.'
    ' Round 8: (23) FLOW: the tuple branch of _tagmarkup_recurse recurses with tm[0] on every path, None included; (24) ORDER: attr_to_escape() asks the palette before it special-cases None.'
)
NOT_DECIDED = "Run-length alignment of attributes through layout and encoding, composition order of nested maps as a value statement, the SGR text produced for every AttrSpec and its decoding."
ASSUMPTIONS = []

COMMON = "urwid.display.common"
RAW = "urwid.display._raw_display_base"
DEPTHS = [16, 1, 88, 256, 2**24]


def _int_const(e):
    try:
        v = eval(compile(ast.Expression(e), "<const>", "eval"), {"__builtins__": {}})  # literal arithmetic such as 2**24 only
    except Exception:  # noqa: BLE001
        return None
    return v if isinstance(v, int) else None


def _is_const_expr(e) -> bool:
    return all(isinstance(x, (ast.Constant, ast.BinOp, ast.Pow, ast.Mult, ast.Add, ast.Sub, ast.UnaryOp, ast.USub, ast.Expression, ast.Load)) for x in ast.walk(e))


def rule_palette_order(ctx: Ctx) -> RuleResult:
    p = ctx.p
    rr = RuleResult("TAB", "C17.1", "palette tuples are built as (16, 1, 88, 256, 2**24 colours) and every depth->position map agrees with that order and covers all depths", floor=4)
    rpe = p.func(f"{COMMON}.BaseScreen.register_palette_entry")
    du = DefUse(rpe)
    stores = [n for n in rpe.own_nodes() if isinstance(n, ast.Assign) and any(isinstance(t, ast.Subscript) and ast.unparse(t.value) == "self._palette" for t in n.targets)]
    emits = [c for c in rpe.own_nodes() if isinstance(c, ast.Call) and callee_name(c) == "emit_signal" and len(c.args) >= 3 and ast.unparse(c.args[1]) == "UPDATE_PALETTE_ENTRY"]
    if len(stores) != 1 or len(emits) != 1 or not isinstance(stores[0].value, ast.Tuple):
        raise AnalysisError("register_palette_entry: palette store / UPDATE_PALETTE_ENTRY emission not found")
    names = [ast.unparse(e) for e in stores[0].value.elts]
    emitted = [ast.unparse(a) for a in emits[0].args[3:]]
    rr.inst("store order = emit order", True, {"stored": names, "emitted": emitted})
    if names != emitted:
        rr.add(finding("TAB", rpe, emits[0], f"the palette entry is stored as ({', '.join(names)}) but announced to the screen as ({', '.join(emitted)})", construct="palette store order differs from emitted order"))
    # depth each position was built with
    depth_of = {}
    for pos, nm in enumerate(names):
        ds = set()
        for dn, v, how in du.defs.get(nm, []):
            if isinstance(v, ast.Call) and callee_name(v) == "AttrSpec" and len(v.args) >= 3 and _is_const_expr(v.args[2]):
                ds.add(_int_const(v.args[2]))
            elif isinstance(v, ast.Name):
                # high_88 = basic (documented fallback for hX > 15): counts as the basic spec standing in
                ds.add(("alias", v.id))
        real = {d for d in ds if isinstance(d, int)}
        rr.inst(f"position {pos} ({nm})", True, {"position": pos, "name": nm, "built_for_colors": sorted(real)})
        if real != {DEPTHS[pos]}:
            rr.add(finding("TAB", rpe, stores[0], f"position {pos} of the palette tuple (`{nm}`) is built for {sorted(real)} colours; position {pos} must hold the {DEPTHS[pos]}-colour spec", construct=f"palette position {pos} built for {sorted(real)}"))
        depth_of[pos] = DEPTHS[pos]
    # consumers: dict literals {depth: position} subscripted by self.colors
    n_maps = 0
    for fi in p.functions.values():
        if not fi.module.name.startswith("urwid.display"):
            continue
        for n in fi.own_nodes():
            if isinstance(n, ast.Subscript) and isinstance(n.value, ast.Dict) and ast.unparse(n.slice) == "self.colors":
                d = n.value
                m = {}
                ok = True
                for k, v in zip(d.keys, d.values):
                    kk, vv = _int_const(k) if _is_const_expr(k) else None, _int_const(v) if _is_const_expr(v) else None
                    if kk is None or vv is None:
                        ok = False
                    else:
                        m[kk] = vv
                if not ok:
                    continue
                n_maps += 1
                rr.inst(f"{short(fi)}:depth map", True, {"function": short(fi), "map": {str(k): v for k, v in m.items()}})
                for depth, pos in m.items():
                    if pos >= len(DEPTHS) or DEPTHS[pos] != depth:
                        rr.add(finding("TAB", fi, n, f"colour depth {depth} is mapped to palette position {pos}, which holds the spec built for {DEPTHS[pos] if pos < len(DEPTHS) else '?'} colours", construct=f"depth {depth} -> position {pos}"))
                missing = [d_ for d_ in DEPTHS if d_ not in m]
                if missing:
                    rr.add(finding("TAB", fi, n, f"the depth->position map has no entry for {missing}: set_terminal_properties(colors={missing[0]}) followed by a draw raises KeyError", construct=f"depth map misses {missing}"))
    if n_maps < 2:
        raise AnalysisError(f"only {n_maps} depth->position maps found (raw display and HTML generator expected)")
    return rr


def rule_palette_notify(ctx: Ctx) -> RuleResult:
    p = ctx.p
    rr = RuleResult("PAIR", "C17.2", "every store into the palette is accompanied by an UPDATE_PALETTE_ENTRY emission for the same name", floor=2)
    cls = p.cls(f"{COMMON}.BaseScreen")
    for fi in p.all_class_functions(cls):
        cfg = None
        for n in fi.own_nodes():
            if isinstance(n, ast.Assign) and any(isinstance(t, ast.Subscript) and ast.unparse(t.value) == "self._palette" for t in n.targets):
                key = ast.unparse([t for t in n.targets if isinstance(t, ast.Subscript)][0].slice)
                cfg = cfg or cfg_of(fi)
                sn = cfg.stmt_nodes(n)
                em = nodes_where(cfg, lambda x: isinstance(x, ast.Call) and callee_name(x) == "emit_signal" and len(x.args) >= 3 and ast.unparse(x.args[1]) == "UPDATE_PALETTE_ENTRY" and ast.unparse(x.args[2]) == key)
                rr.inst(f"{short(fi)}:{norm(n, 50)}", True, {"function": short(fi), "store": norm(n, 60), "emissions_for_same_name": len(em)})
                ok = bool(em) and all(any(cfg.dominated(s, [e]) or not (cfg.exit in cfg.reachable([s], avoid=[e], labels=("n", "T", "F"))) for e in em) for s in sn)
                if not ok:
                    rr.add(finding("PAIR", fi, n, f"`{norm(n, 60)}` changes the palette without emitting UPDATE_PALETTE_ENTRY for `{key}`: the display back-end never computes an escape sequence for that name and draws it with the default attributes", construct=f"palette store without notification: {norm(n, 60)}"))
    return rr


def rule_palette_cache(ctx: Ctx, clause="C17.3") -> RuleResult:
    p = ctx.p
    rr = RuleResult("INV", clause, "_pal_attrspec and _pal_escape are written together; changing a terminal property they depend on rebuilds the cache for the whole palette on every path", floor=4)
    cls = p.cls(f"{RAW}.Screen")
    writers = {"_pal_escape": set(), "_pal_attrspec": set()}
    for fi in p.all_class_functions(cls):
        for n in fi.own_nodes():
            if isinstance(n, ast.Assign):
                for t in n.targets:
                    for a in writers:
                        if isinstance(t, ast.Subscript) and ast.unparse(t.value) == f"self.{a}":
                            writers[a].add(fi)
                        elif isinstance(t, ast.Attribute) and t.attr == a and fi.name != "__init__" and not (isinstance(n.value, ast.Dict) and not n.value.keys):
                            writers[a].add(fi)
    for a, fs in writers.items():
        for fi in fs:
            rr.inst(f"{a} written by {short(fi)}", True, {"cache": a, "writer": short(fi)})
    only_e = writers["_pal_escape"] - writers["_pal_attrspec"]
    only_a = writers["_pal_attrspec"] - writers["_pal_escape"]
    for fi in only_e:
        rr.add(finding("INV", fi, fi.node, f"{fi.name}() fills _pal_escape but not _pal_attrspec: draw_screen decides from _pal_attrspec whether trailing blanks may be erased (standout/underline) while the escape sent comes from _pal_escape - the two caches disagree after this method ran", construct=f"{fi.name} writes _pal_escape only"))
    for fi in only_a:
        rr.add(finding("INV", fi, fi.node, f"{fi.name}() fills _pal_attrspec but not _pal_escape", construct=f"{fi.name} writes _pal_attrspec only"))
    # inputs of the cached escapes: self attributes read by _attrspec_to_escape / _on_update_palette_entry
    inputs = set()
    for nm in ("_attrspec_to_escape", "_on_update_palette_entry"):
        r = p.find_member(cls, nm)
        if not r or r[0] != "method":
            raise AnalysisError(f"Screen.{nm} not found")
        f = r[1]
        inputs |= {x.attr for x in f.own_nodes() if isinstance(x, ast.Attribute) and isinstance(x.value, ast.Name) and x.value.id == f.self_name and isinstance(x.ctx, ast.Load)}
    inputs &= {"colors", "fg_bright_is_bold", "has_underline", "bright_is_bold"}
    if not inputs:
        raise AnalysisError("no terminal-property inputs of the escape cache found")
    for fi in p.all_class_functions(cls):
        if fi.name == "__init__":
            continue
        cfg = cfg_of(fi)
        stores = [n for n in cfg.nodes if isinstance(n.ast, ast.Assign) and any(isinstance(t, ast.Attribute) and t.attr in inputs and isinstance(t.value, ast.Name) and t.value.id == fi.self_name for x in n.ast.targets for t in ast.walk(x))]
        if not stores:
            continue
        # rebuild = a for loop over self._palette whose body calls _on_update_palette_entry
        rebuild = [h for h in cfg.nodes if h.kind == "for" and "self._palette" in ast.unparse(h.ast.iter) and any(isinstance(x, ast.Call) and callee_name(x) == "_on_update_palette_entry" for x in ast.walk(h.ast))]
        for s in stores:
            rr.inst(f"{short(fi)}:{norm(s.stmt, 40)}", True, {"function": short(fi), "property_store": norm(s.stmt, 50), "rebuild_loops": len(rebuild)})
            if not rebuild or cfg.exit in cfg.reachable([s], avoid=rebuild, labels=("n", "T", "F")):
                rr.add(finding("INV", fi, s.stmt, f"after `{norm(s.stmt, 40)}` a path ends {fi.name}() without rebuilding the cached escape sequences for the whole palette (`for ... in self._palette.items(): self._on_update_palette_entry(...)`): names registered earlier keep the escapes computed for the old property value", construct=f"{fi.name}: property stored without cache rebuild"))
                break
    return rr


def rule_palette_total(ctx: Ctx, clause="C17.4") -> RuleResult:
    p = ctx.p
    rr = RuleResult("GUARD", clause, "palette / escape-cache lookups keyed by a canvas attribute are total (membership test or .get with default)", floor=2)
    TABLES = ("self._palette", "self._pal_escape", "self._pal_attrspec")
    for mn in ("urwid.display._raw_display_base", "urwid.display.html_fragment"):
        m = p.modules.get(mn)
        if m is None:
            raise AnalysisError(f"{mn} not found")
        for fi in m.functions:
            if fi.cls is None:
                continue
            cfg = None
            for n in fi.own_nodes():
                if isinstance(n, ast.Call) and isinstance(n.func, ast.Attribute) and n.func.attr == "get" and ast.unparse(n.func.value) in TABLES:
                    rr.inst(f"{short(fi)}:{norm(n, 50)}", True, {"function": short(fi), "lookup": norm(n, 60), "total": ".get"} if len(rr.samples) < 5 else None)
                    if len(n.args) < 2:
                        rr.add(finding("GUARD", fi, n, f"`{norm(n, 50)}` has no default: an undefined attribute name yields None", construct=f".get without default {norm(n, 50)}"))
                if not (isinstance(n, ast.Subscript) and isinstance(n.ctx, ast.Load) and ast.unparse(n.value) in TABLES):
                    continue
                key = n.slice
                if isinstance(key, ast.Constant):
                    continue
                ktxt = ast.unparse(key)
                # only keys that are canvas attributes: locals of draw paths (not `name` parameters of registration code)
                if fi.name in ("register_palette", "register_palette_entry", "_on_update_palette_entry"):
                    continue
                cfg = cfg or cfg_of(fi)
                cn = nodes_where(cfg, lambda x, n=n: x is n)
                tests = [t for t in cfg.nodes if t.kind == "test" and any(isinstance(c, ast.Compare) and isinstance(c.ops[0], ast.In) and ast.unparse(c.left) == ktxt and ast.unparse(c.comparators[0]) in (ast.unparse(n.value), ast.unparse(n.value) + ".keys()") for c in ast.walk(t.ast))]
                ok = any(all(x not in ExcEngine._reach_without_edge(cfg, t, "T") for x in cn) for t in tests)
                rr.inst(f"{short(fi)}:{norm(n, 50)}", True, {"function": short(fi), "lookup": norm(n, 60), "total": "membership test" if ok else None} if len(rr.samples) < 5 else None)
                if not ok:
                    rr.add(finding("GUARD", fi, n, f"`{norm(n, 50)}` indexes the palette with a canvas attribute without a membership test or default: text carrying an attribute name that was never registered raises KeyError instead of being drawn with the default attributes", construct=f"partial palette lookup {norm(n, 50)}"))
    return rr


def rule_attrmap(ctx: Ctx) -> RuleResult:
    p = ctx.p
    rr = RuleResult("GUARD", "C17.5", "AttrMap.render applies the focus map only under `focus and self._focus_map is not None`, to a fresh composite canvas", floor=2)
    fi = p.func("urwid.widget.attr_map.AttrMap.render")
    cfg = cfg_of(fi)
    du = DefUse(fi)
    calls = [c for c in fi.own_nodes() if isinstance(c, ast.Call) and callee_name(c) == "fill_attr_apply"]
    if len(calls) != 1:
        raise AnalysisError("AttrMap.render: fill_attr_apply call not found")
    c = calls[0]
    arg = c.args[0]
    at = du.node_of(c)
    defs = du.reaching(arg.id, at) if isinstance(arg, ast.Name) else []
    vals = {ast.unparse(v): dn for v, how, dn in defs if v is not None}
    rr.inst("map selection", True, {"applied_map_definitions": sorted(vals)})
    if set(vals) != {"self._attr_map", "self._focus_map"}:
        rr.add(finding("GUARD", fi, c, f"the map applied in render() comes from {sorted(vals)}; expected self._attr_map with self._focus_map as the focused alternative", construct="AttrMap.render map sources"))
    else:
        fn = vals["self._focus_map"]
        tests = [t for t in cfg.nodes if t.kind == "test" and fn not in ExcEngine._reach_without_edge(cfg, t, "T")]
        txt = " and ".join(ast.unparse(t.ast) for t in tests)
        ok = "focus" in txt.split(" and ") [0:1] + txt.replace("(", " ").replace(")", " ").split() and "self._focus_map is not None" in txt
        if not ok:
            rr.add(finding("GUARD", fi, fn.stmt, f"the focus map is selected under `{txt or 'no test'}`, not under `focus and self._focus_map is not None`: an unfocused widget is drawn with focus attributes, or a missing focus map replaces the normal one by None", construct=f"focus map selected under `{txt}`"))
    recv = c.func.value
    rtxt = ast.unparse(du.expand(recv, at))
    rr.inst("fresh composite", True, {"receiver": rtxt[:80]})
    if not rtxt.startswith("CompositeCanvas("):
        rr.add(finding("GUARD", fi, c, f"the attribute map is applied to `{rtxt[:60]}`, not to a fresh CompositeCanvas wrapped around the child's canvas", construct="map applied to a non-fresh canvas"))
    # AttrWrap (the compatibility wrapper) expresses "no focus attribute" as None in its constructor; its setter has to
    # map None to "no focus map" as well - the map {None: None} draws the focused widget with the attribute None
    sfa = p.func("urwid.widget.attr_wrap.AttrWrap.set_focus_attr")
    prm = sfa.params[1]
    none_test = any(isinstance(x, ast.Compare) and isinstance(x.ops[0], (ast.Is, ast.IsNot)) and isinstance(x.left, ast.Name) and x.left.id == prm and isinstance(x.comparators[0], ast.Constant) and x.comparators[0].value is None for x in ast.walk(sfa.node))
    rr.inst("AttrWrap.set_focus_attr(None)", True, {"tests_None": none_test})
    if not none_test:
        rr.add(finding("GUARD", sfa, sfa.node, f"set_focus_attr() wraps its argument into a focus map without testing it for None: set_focus_attr(None) stores {{None: None}} and the focused widget is drawn with the attribute None instead of going back to attr (what the constructor and the docstring say None means)", construct="set_focus_attr stores {None: None} for None"))
    return rr


def rule_palette_depth_index(ctx: Ctx) -> RuleResult:
    """A palette entry holds one AttrSpec per colour depth (16, 1, 88, 256, 2**24).  Code that turns an attribute
    name into the spec *to be shown* must pick the element for the active depth (through the depth->position map or
    the per-depth cache _pal_attrspec); a constant index picks one depth whatever the terminal runs at."""
    p = ctx.p
    rr = RuleResult("TAB", "C17.13", "no display code indexes a palette entry with a constant position", floor=1)
    n = 0
    for fi in p.functions.values():
        if not fi.module.name.startswith("urwid.display"):
            continue
        for x in fi.own_nodes():
            if isinstance(x, ast.Subscript) and isinstance(x.value, (ast.Subscript, ast.Call)) and "_palette" in ast.unparse(x.value) and "_pal_" not in ast.unparse(x.value):
                inner = x.value
                is_entry = (isinstance(inner, ast.Subscript) and ast.unparse(inner.value).endswith("._palette")) or (isinstance(inner, ast.Call) and isinstance(inner.func, ast.Attribute) and inner.func.attr == "get" and ast.unparse(inner.func.value).endswith("._palette"))
                if not is_entry:
                    continue
                n += 1
                rr.inst(f"{short(fi)}:{norm(x, 50)}", True, {"site": f"{short(fi)}: {norm(x, 70)}"})
                if isinstance(x.slice, ast.Constant) or (isinstance(x.slice, ast.UnaryOp) and isinstance(x.slice.operand, ast.Constant)):
                    rr.add(finding("TAB", fi, x, f"`{norm(x, 70)}` takes position {ast.unparse(x.slice)} of the palette entry whatever the colour depth: at any other depth the spec consulted is not the one that is drawn (an entry that is standout only in monochrome is treated as plain, so its trailing blanks are erased without the attribute)", construct=f"palette entry indexed with constant {ast.unparse(x.slice)}"))
    rr.inst("scan", True, {"palette_entry_subscripts": n})
    return rr


def _sentinel(ctx: Ctx):
    from ..rules import sentinel

    return sentinel.run_sentinel(ctx.p, "C17.14", ("urwid.widget",), floor=1, only_classes={"AttrMap", "AttrWrap"})


def rule_markup_index_guard(ctx: Ctx) -> RuleResult:
    """_tagmarkup_recurse returns two lists that are *empty* for markup without text (`[]`, nested empty lists).  Where it
    merges neighbouring attribute runs it reads the first / last element of such lists: every constant subscript of a
    list local must be dominated by a truthiness test of that very list."""
    from ..rules.exc import ExcEngine
    from ..rules.util import cfg_of

    p = ctx.p
    rr = RuleResult("GUARD", "C17.15", "_tagmarkup_recurse reads x[0] / x[-1] of its run lists only under a truthiness test of x", floor=2)
    fi = p.func("urwid.util._tagmarkup_recurse")
    cfg = cfg_of(fi)
    for node in cfg.nodes:
        a = node.ast
        if a is None or node.kind in ("for", "with", "handler"):
            continue
        for sub in ast.walk(a):
            if isinstance(sub, ast.Subscript) and isinstance(sub.value, ast.Name) and isinstance(sub.ctx, (ast.Load, ast.Del)) and (isinstance(sub.slice, ast.Constant) or (isinstance(sub.slice, ast.UnaryOp) and isinstance(sub.slice.operand, ast.Constant))):
                nm = sub.value.id
                if nm in fi.params:
                    continue
                ok = False
                for t in cfg.nodes:
                    if t.kind != "test" or node in ExcEngine._reach_without_edge(cfg, t, "T"):
                        continue
                    ops = t.ast.values if isinstance(t.ast, ast.BoolOp) and isinstance(t.ast.op, ast.And) else [t.ast]
                    if any(isinstance(o, ast.Name) and o.id == nm for o in ops):
                        ok = True
                rr.inst(f"{norm(sub, 20)}@{norm(node.stmt, 30)}", True, {"read": norm(sub, 20), "in": norm(node.stmt, 50)})
                if not ok:
                    rr.add(finding("GUARD", fi, node.stmt, f"`{norm(sub, 20)}` is read without a truthiness test of `{nm}` on the path: markup elements without text (`[]`) produce empty run lists, so Text(['a', [], 'b']) raises IndexError", construct=f"{norm(sub, 20)} read without testing {nm}"))
    return rr


def rule_desc_tokens(ctx: Ctx) -> RuleResult:
    """A foreground / background description is a comma-separated list of settings in any order ('bold,h100' and
    'h100,bold' mean the same to AttrSpec, which splits on "," and strips each part).  A helper that looks for a
    colour token in such a string itself (the 88-colour fallback test of register_palette_entry) has to look at
    every part: its string parameter is read only as the receiver of `.split(",")`, never by position
    (startswith on the whole string, the first part only)."""
    p = ctx.p
    rr = RuleResult("SIB", "C17.16", "helpers that search a colour description for a token examine every comma-separated part; the hN bound of the 88-colour fallback is the number of colours the 88 and 256 palettes share", floor=2)
    reg = p.func("urwid.display.common.BaseScreen.register_palette_entry")
    helpers = [f for f in p.functions.values() if getattr(f, "parent", None) is reg and not f.is_lambda]
    if not helpers:
        raise AnalysisError("register_palette_entry: the nested colour-description helper was not found")
    for h in helpers:
        if not h.params:
            continue
        prm = h.params[0]
        loads = [n for n in h.own_nodes() if isinstance(n, ast.Name) and n.id == prm and isinstance(n.ctx, ast.Load)]
        split_recv = {id(c.func.value) for c in h.own_nodes() if isinstance(c, ast.Call) and isinstance(c.func, ast.Attribute) and c.func.attr == "split" and c.args and isinstance(c.args[0], ast.Constant) and c.args[0].value == "," and len(c.args) == 1 and not c.keywords}
        stores = [n for n in h.own_nodes() if isinstance(n, ast.Name) and n.id == prm and isinstance(n.ctx, ast.Store)]
        bad = [n for n in loads if id(n) not in split_recv]
        rr.inst(short(h), True, {"helper": short(h), "parameter": prm, "reads": len(loads), "reads_other_than_split": len(bad), "parameter_reassigned": bool(stores)})
        if bad or stores or not loads:
            rr.add(finding("SIB", h, (bad or stores or [h.node])[0], f"{h.name}() inspects the description string `{prm}` by position instead of part by part: a colour token that is not the first setting ('bold,h100') is missed, so the 88-colour AttrSpec is built from a description that is only valid for 256 colours and register_palette_entry raises AttrSpecError", construct=f"{h.name}: description not examined part by part"))
        # the bound of the 'hN' test: colour numbers up to this bound mean the same colour in the 88- and in the
        # 256-colour palette (folded from the two tables), every larger number does not - for those the 88-colour
        # form of the entry has to fall back to the basic colours
        from ..consteval import fold_expr, fold_module_name

        cm = p.modules["urwid.display.common"]
        t88, t256 = fold_module_name(p, cm, "_COLOR_VALUES_88"), fold_module_name(p, cm, "_COLOR_VALUES_256")
        same = 0
        while same < min(len(t88), len(t256)) and t88[same] == t256[same]:
            same += 1
        # same = number of leading colour numbers with identical meaning (16)
        for c in [c for c in h.own_nodes() if isinstance(c, ast.Compare) and len(c.ops) == 1 and isinstance(c.ops[0], (ast.Gt, ast.GtE)) and isinstance(c.left, ast.Call) and callee_name(c.left) == "int"]:
            try:
                k = fold_expr(p, cm, c.comparators[0])
            except AnalysisError:
                k = None
            first_large = None if not isinstance(k, int) else (k + 1 if isinstance(c.ops[0], ast.Gt) else k)
            rr.inst(f"{short(h)}: bound {norm(c, 40)}", True, {"test": norm(c, 60), "first_number_treated_as_large": first_large, "colour_numbers_shared_by_88_and_256": same})
            basic = len(fold_module_name(p, cm, "_BASIC_COLORS"))
            if first_large is None or not basic <= first_large <= same:
                rr.add(finding("SIB", h, c, f"`{norm(c, 60)}` treats colour numbers from {first_large} on as 'not usable at 88 colours', but the 88- and the 256-colour palettes (folded from _COLOR_VALUES_88 / _COLOR_VALUES_256) agree exactly on the numbers 0..{same - 1} (the {basic} basic colours and what follows by coincidence): with a larger bound an entry with h{same}..h{(first_large or same) - 1} is sent to an 88-colour terminal as 38;5;N - another colour than the entry describes; with a bound below {basic} a basic colour number falls back needlessly", construct=f"{h.name}: bound {first_large} outside {basic}..{same}"))
    return rr


def rule_charset_pad(ctx: Ctx) -> RuleResult:
    """apply_text_layout() builds three parallel things per output line: the bytes, the attribute runs and the
    charset runs.  Every branch of the segment loop that appends bytes has to account for them in *both* run lists,
    otherwise the runs that follow apply to cells one position to the left (PAIRLEN checks the lengths recorded;
    this checks that no branch forgets a list altogether)."""
    p = ctx.p
    rr = RuleResult("PAIR", "C17.19", "every branch of apply_text_layout's segment loop that emits cells records them in the attribute runs and in the charset runs", floor=3)
    fi = p.func("urwid.canvas.apply_text_layout")
    loops = [n for n in fi.own_nodes() if isinstance(n, ast.For) and any(isinstance(c, ast.Call) and isinstance(c.func, ast.Name) and c.func.id == "LayoutSegment" for c in ast.walk(n))]
    if not loops:
        raise AnalysisError("apply_text_layout: the loop over the layout segments was not found")
    lp = loops[-1]
    chain = [st for st in lp.body if isinstance(st, ast.If)]
    if not chain:
        raise AnalysisError("apply_text_layout: the if/elif chain over the segment kinds was not found")
    branches = []
    cur = chain[0]
    while True:
        branches.append((norm(cur.test, 40), cur.body))
        if len(cur.orelse) == 1 and isinstance(cur.orelse[0], ast.If):
            cur = cur.orelse[0]
        else:
            if cur.orelse:
                branches.append(("else", cur.orelse))
            break
    # the three per-line lists by role: return TextCanvas(T, A, C) <- T.append(b"".join(LINE)), A.append(LINEA), C.append(LINEC)
    ret = next((c for n in fi.own_nodes() if isinstance(n, ast.Return) and n.value is not None for c in [n.value] if isinstance(c, ast.Call) and callee_name(c) == "TextCanvas" and len(c.args) >= 3 and all(isinstance(a, ast.Name) for a in c.args[:3])), None)
    if ret is None:
        raise AnalysisError("apply_text_layout: `return TextCanvas(text, attr, cs, ...)` not found")
    acc_t, acc_a, acc_c = (a.id for a in ret.args[:3])

    def appended_to(acc):
        for c in fi.own_nodes():
            if isinstance(c, ast.Call) and isinstance(c.func, ast.Attribute) and c.func.attr == "append" and isinstance(c.func.value, ast.Name) and c.func.value.id == acc and c.args:
                names = [x.id for x in ast.walk(c.args[0]) if isinstance(x, ast.Name)]
                if names:
                    return names[-1]
        raise AnalysisError(f"apply_text_layout: nothing is appended to the accumulator `{acc}`")

    line, linea, linec = appended_to(acc_t), appended_to(acc_a), appended_to(acc_c)
    # nested helpers that write the attribute runs for the caller
    attr_helpers = {d.name for d in ast.walk(fi.node) if isinstance(d, ast.FunctionDef) and d is not fi.node and any(isinstance(x, ast.Name) and x.id == linea for x in ast.walk(d))}

    def mentions(body, name):
        return any(isinstance(x, ast.Name) and x.id == name for b in body for x in ast.walk(b))

    for label, body in branches:
        emits = any(isinstance(c, ast.Call) and isinstance(c.func, ast.Attribute) and c.func.attr == "append" and isinstance(c.func.value, ast.Name) and c.func.value.id == line for b in body for c in ast.walk(b))
        attr = mentions(body, linea) or any(isinstance(c, ast.Call) and isinstance(c.func, ast.Name) and c.func.id in attr_helpers for b in body for c in ast.walk(b))
        chars = mentions(body, linec)
        if not emits:
            continue
        rr.inst(f"branch {label}", True, {"branch": label, "attribute_runs": attr, "charset_runs": chars})
        if not (attr and chars):
            rr.add(finding("PAIR", fi, body[0], f"the branch `{label}` of apply_text_layout's segment loop appends cells to the line but not to the {'charset' if attr else 'attribute'} runs: every later run of that list applies one cell too far left (a DEC line-drawing character after a cut wide character is printed as its alias letter)", construct=f"branch {label}: cells without {'charset' if attr else 'attribute'} run"))
    return rr


def rule_palette_first(ctx: Ctx) -> RuleResult:
    """'every cell shows the palette entry registered for its attribute name': None is a palette name like any other
    (Screen.__init__ registers it, applications re-register it to colour unattributed text).  draw_screen's
    attr_to_escape() therefore asks the palette first: every return other than the palette entry itself lies on the
    false edge of the `a in self._pal_escape` test.  Seed C17-r8b answered None with default/default ahead of the
    lookup: a palette that redefines None was ignored for every unattributed cell."""
    p = ctx.p
    rr = RuleResult("ORDER", "C17.24", "attr_to_escape() consults the palette before it special-cases any attribute value (None is a registered palette name)", floor=2)
    cands = [f for q, f in p.functions.items() if q.endswith("draw_screen.<locals>.attr_to_escape") and f.module.name == "urwid.display._raw_display_base"]
    if not cands:
        raise AnalysisError("draw_screen: the local function attr_to_escape was not found")
    fi = cands[0]
    cfg = cfg_of(fi)
    prm = fi.params[0]
    tests = [t for t in cfg.nodes if t.kind == "test" and isinstance(t.ast, ast.Compare) and isinstance(t.ast.ops[0], ast.In) and isinstance(t.ast.left, ast.Name) and t.ast.left.id == prm and "_pal_escape" in ast.unparse(t.ast.comparators[0])]
    if not tests:
        raise AnalysisError("attr_to_escape: the palette lookup test (`a in self._pal_escape`) was not found")
    for r in [n for n in cfg.nodes if n.kind == "return"]:
        from_palette = "_pal_escape" in ast.unparse(r.ast.value) if r.ast.value is not None else False
        after = any(r not in ExcEngine._reach_without_edge(cfg, t, "F") for t in tests)
        rr.inst(f"{norm(r.ast, 50)}", True, {"return": norm(r.ast, 60), "palette_entry": from_palette, "after_failed_lookup": after})
        if not from_palette and not after:
            rr.add(finding("ORDER", fi, r.ast, f"`{norm(r.ast, 60)}` answers before the palette was asked: an attribute name that is registered in the palette (None is - Screen.__init__ registers it and applications redefine it) is painted with this fallback instead of its palette entry", construct="attr_to_escape: fallback before the palette lookup"))
    return rr


def rule_innermost_tag(ctx: Ctx) -> RuleResult:
    """'each character carries the innermost tag around it': a tuple (tag, markup) replaces the enclosing attribute
    for everything inside it - also when the tag is None (that is how markup switches back to the default inside a
    tagged run).  In the tuple branch of _tagmarkup_recurse() the attribute handed to the recursive call is tm[0] on
    every path: no definition of that name reaching the call is the function's own parameter (the enclosing
    attribute).  Seed C17-r8a kept the enclosing attribute when the tag was None: ('warn', ['ab', (None, 'cd')])
    came out as one run of 'warn'."""
    from ..rules.defuse import DefUse

    p = ctx.p
    rr = RuleResult("FLOW", "C17.23", "the tuple branch of _tagmarkup_recurse recurses with the tuple's own tag on every path (None included), never with the enclosing attribute", floor=1)
    fi = p.func("urwid.util._tagmarkup_recurse")
    du = DefUse(fi)
    cfg = du.cfg
    tm, enclosing = fi.params[0], fi.params[1]
    tup = [t for t in cfg.nodes if t.kind == "test" and isinstance(t.ast, ast.Call) and callee_name(t.ast) == "isinstance" and len(t.ast.args) == 2 and isinstance(t.ast.args[0], ast.Name) and t.ast.args[0].id == tm and "tuple" in ast.unparse(t.ast.args[1])]
    if not tup:
        raise AnalysisError("_tagmarkup_recurse: the isinstance(tm, tuple) branch was not found")
    from ..rules.exc import ExcEngine

    n_calls = 0
    for cn in cfg.nodes:
        if any(cn in ExcEngine._reach_without_edge(cfg, t, "T") for t in tup):
            continue
        for e in node_exprs(cn):
            for c in ast.walk(e):
                if not (isinstance(c, ast.Call) and callee_name(c) == fi.name and len(c.args) >= 2):
                    continue
                n_calls += 1
                a = c.args[1]
                srcs = []
                if isinstance(a, ast.Name):
                    for val, how, dn in du.reaching(a.id, cn):
                        srcs.append("parameter" if how == "parameter" else (ast.unparse(val) if isinstance(val, ast.AST) else str(how)))
                else:
                    srcs.append(ast.unparse(a))
                ok = bool(srcs) and all(s_ == f"{tm}[0]" for s_ in srcs)
                rr.inst(f"tuple branch: {norm(c, 50)}", True, {"call": norm(c, 60), "attribute_argument_from": srcs})
                if not ok:
                    rr.add(finding("FLOW", fi, c, f"`{norm(c, 60)}` in the tuple branch can be given {srcs} as attribute: only {tm}[0] - the tuple's own tag, None included - is the innermost tag; with the enclosing attribute kept for a None tag, text inside (None, ...) nested under a tagged tuple stays tagged and an AttrMap({{None: ...}}) never reaches it", construct="tuple branch recurses with the enclosing attribute"))
    if not n_calls:
        raise AnalysisError("_tagmarkup_recurse: no recursive call in the tuple branch")
    return rr


def run(ctx: Ctx):
    r6 = c02.rule_cut_attr(ctx)
    r6.clause = "C17.6"
    from ..rules import fresh

    r7 = c02.rule_get_or(ctx)
    r7.clause = "C17.7"
    r8 = fresh.run_fresh(ctx.p, "C17.8", ["urwid.canvas"], floor=30)
    from ..rules import fwd

    r9 = fwd.run_fwd(ctx.p, "C17.9", ("urwid.widget",), floor=100, description="containers and decorations pass the focus flag they receive on to the children they draw / measure: a focus map further down is applied exactly when the widget is in focus")
    from ..rules import accum

    r10 = accum.run_accum(ctx.p, "C17.10", "C17", floor=2)
    from ..rules import loopfresh

    r11 = loopfresh.run_loopfresh(ctx.p, "C17.11", "C17", floor=3)
    from ..rules import pairlen

    r12 = pairlen.run_pairlen(ctx.p, "C17.12", ["urwid.canvas.apply_text_layout", "urwid.util.apply_target_encoding"], floor=8)
    from . import c04 as _c04

    r17 = _c04.rule_rendition_model(ctx, "C17.17")
    from ..rules import sentinel as _sentinel_mod

    r18 = _sentinel_mod.run_sentinel_consumers(ctx.p, "C17.18", "urwid.text_layout.LayoutSegment", ["urwid.canvas", "urwid.text_layout", "urwid.widget"], floor=1)
    from ..rules import inv as _inv
    from ..tables import INV_EXCEPTIONS as _INVX

    # what is displayed with which attribute is widget state: the widgets that carry markup / attribute maps
    # invalidate whenever that state is written (shared engine with C06.1a, restricted to these classes)
    r20 = _inv.run_inv(ctx.p, "C17.20", floor_classes=3, floor_nontrivial=3, exceptions=_INVX, only_classes={"Text", "AttrMap", "AttrWrap", "SelectableIcon", "Edit"})
    from ..rules import runpos as _runpos

    r21 = _runpos.run_runpos_returns(ctx.p, "C17.21", ["urwid.util._tagmarkup_recurse"], floor=1)
    r22 = _c04.rule_repaint(ctx)
    r22.clause = "C17.22"
    return [r17, r18, r20, r21, r22, rule_charset_pad(ctx), rule_palette_order(ctx), rule_palette_notify(ctx), rule_palette_cache(ctx), rule_palette_total(ctx), rule_attrmap(ctx), r6, r7, r8, r9, r10, r11, r12, rule_palette_depth_index(ctx), _sentinel(ctx), rule_markup_index_guard(ctx), rule_desc_tokens(ctx), rule_innermost_tag(ctx), rule_palette_first(ctx)]


_CM = "urwid/display/common.py"
_RW = "urwid/display/_raw_display_base.py"
_HT = "urwid/display/html_fragment.py"
MUTANTS = [
    Mut("twin-tagmarkup-tuple-by-index", "urwid/util.py", "_tagmarkup_recurse", "        attr, element = tm\n", "        attr = tm[0]\n        element = tm[1]\n", twin=True),
    Mut("twin-palette-lookup-keys", "urwid/display/_raw_display_base.py", "urwid.display._raw_display_base.Screen.draw_screen.<locals>.attr_to_escape", "            if a in self._pal_escape:\n", "            if a in self._pal_escape.keys():\n", twin=True),
    Mut("markup-empty-string-zero-run", "urwid/util.py", "_tagmarkup_recurse", "    return [tm], ([(attr, len(tm))] if tm else [])\n", "    return [tm], [(attr, len(tm))]\n", "RUNPOS|util._tagmarkup_recurse|run length len(tm) not shown positive"),
    Mut("twin-markup-empty-string-early-return", "urwid/util.py", "_tagmarkup_recurse", "    return [tm], ([(attr, len(tm))] if tm else [])\n", "    if not tm:\n        return [tm], []\n    return [tm], [(attr, len(tm))]\n", twin=True),
    Mut("large-h-bound-88", _CM, "BaseScreen.register_palette_entry", "int(part[1:], 10) > 15:", "int(part[1:], 10) > 87:", "SIB|display.common.BaseScreen.register_palette_entry.<locals>.large_h|large_h: bound 88"),
    Mut("twin-large-h-bound-ge-16", _CM, "BaseScreen.register_palette_entry", "int(part[1:], 10) > 15:", "int(part[1:], 10) >= _CUBE_START:", twin=True),
    Mut("pad-segment-recognised-by-truthy-offset", "urwid/canvas.py", "apply_text_layout", "            elif s.offs is not None:", "            elif s.offs:", "SENTINEL|canvas.apply_text_layout"),
    Mut("pad-segment-without-charset-run", "urwid/canvas.py", "apply_text_layout", "                    attrrange(s.offs, s.offs, s.sc)\n                    rle_append_modify(linec, (None, s.sc))\n", "                    attrrange(s.offs, s.offs, s.sc)\n", "PAIR|canvas.apply_text_layout"),
    Mut("initial-rendition-only-on-full-repaint", _RW, "urwid.display._raw_display_base.Screen.draw_screen", "        output: list[str] = [escape.HIDE_CURSOR, attr_to_escape(last_attributes)]\n", "        output: list[str] = [escape.HIDE_CURSOR]\n        if not self.screen_buf:\n            output.append(attr_to_escape(last_attributes))\n", "PAIR|display._raw_display_base.Screen.draw_screen|rendition model"),
    Mut("large-h-first-setting-only", _CM, "BaseScreen.register_palette_entry", "            for part in desc.split(\",\"):\n                part = part.strip()  # noqa: PLW2901\n                if part.startswith(\"h\") and part[1:].isdigit() and int(part[1:], 10) > 15:\n                    return True\n            return False\n", "            part = desc.split(\",\", 1)[0].strip()\n            return part.startswith(\"h\") and part[1:].isdigit() and int(part[1:], 10) > 15\n", "SIB|display.common.BaseScreen.register_palette_entry.<locals>.large_h"),
    Mut("attrwrap-focus-attr-none-mapped", "urwid/widget/attr_wrap.py", "AttrWrap.set_focus_attr", "self.set_focus_map(None if focus_attr is None else {None: focus_attr})", "self.set_focus_map({None: focus_attr})", "GUARD|widget.attr_wrap.AttrWrap.set_focus_attr"),
    Mut("markup-merge-reads-empty-run-list", "urwid/util.py", "_tagmarkup_recurse", "            if ral and al:", "            if ral:", "GUARD|util._tagmarkup_recurse"),
    Mut("focus-map-getter-by-truthiness", "urwid/widget/attr_map.py", "AttrMap.get_focus_map", "        if self._focus_map is not None:", "        if self._focus_map:", "SENTINEL|widget.attr_map.AttrMap.get_focus_map"),
    Mut("erase-guard-consults-basic-spec", _RW, "urwid.display._raw_display_base.Screen.draw_screen", "            a = self._pal_attrspec.get(a, a)", "            a = self._palette.get(a, (a,))[0]", "TAB|display._raw_display_base.Screen.draw_screen"),
    Mut("ellipsis-attr-run-in-columns", "urwid/canvas.py", "apply_text_layout", "attrrange(s.offs, s.offs, len(tseg))", "attrrange(s.offs, s.offs, s.sc)", "PAIRLEN|canvas.apply_text_layout"),
    Mut("palette-256-built-for-88", _CM, "BaseScreen.register_palette_entry", "high_256 = AttrSpec(foreground_high, background_high, 256)", "high_256 = AttrSpec(foreground_high, background_high, 88)", "TAB|"),
    Mut("palette-store-order-swapped", _CM, "BaseScreen.register_palette_entry", "self._palette[name] = (basic, mono_spec, high_88, high_256, high_true)", "self._palette[name] = (basic, mono_spec, high_256, high_88, high_true)", "TAB|"),
    Mut("raw-map-swaps-88-256", _RW, "urwid.display._raw_display_base.Screen._on_update_palette_entry", "{16: 0, 1: 1, 88: 2, 256: 3, 2**24: 4}", "{16: 0, 1: 1, 88: 3, 256: 2, 2**24: 4}", "TAB|"),
    Mut("html-map-without-truecolor", _HT, "HtmlGenerator.draw_screen", "{1: 1, 16: 0, 88: 2, 256: 3, 2**24: 4}", "{1: 1, 16: 0, 88: 2, 256: 3}", "TAB|"),
    Mut("alias-not-announced", _CM, "BaseScreen.register_palette", "            signals.emit_signal(self, UPDATE_PALETTE_ENTRY, name, *self._palette[like_name])\n", "", "PAIR|display.common.BaseScreen.register_palette"),
    Mut("rebuild-only-on-depth-change", _RW, "urwid.display._raw_display_base.Screen.set_terminal_properties", "        self.clear()\n        self._pal_escape = {}\n        for p, v in self._palette.items():\n            self._on_update_palette_entry(p, *v)", "        depth_changed = colors != self.colors\n        self.clear()\n        if depth_changed:\n            self._pal_escape = {}\n            for p, v in self._palette.items():\n                self._on_update_palette_entry(p, *v)", "INV|", note="statement order broken on purpose: depth_changed read after the store is still a compile-clean variant"),
    Mut("rebuild-escape-cache-only", _RW, "urwid.display._raw_display_base.Screen.set_terminal_properties", "        for p, v in self._palette.items():\n            self._on_update_palette_entry(p, *v)", "        self._pal_escape = {p: self._attrspec_to_escape(v[{16: 0, 1: 1, 88: 2, 256: 3, 2**24: 4}[self.colors]]) for p, v in self._palette.items()}", "INV|"),
    Mut("html-lookup-partial", _HT, "HtmlGenerator.draw_screen", "self._palette.get(a, self._palette[None])[", "self._palette[a][", "GUARD|display.html_fragment.HtmlGenerator.draw_screen"),
    Mut("attrmap-focus-map-unconditional", "urwid/widget/attr_map.py", "AttrMap.render", "if focus and self._focus_map is not None:", "if self._focus_map is not None:", "GUARD|widget.attr_map.AttrMap.render"),
    Mut("cut-attr-from-kept-neighbour", "urwid/util.py", "trim_text_attr_cs", "al = rle_get_at(attr, spos - 1)", "al = rle_get_at(attr, spos)", "PAIR|util.trim_text_attr_cs"),
    Mut("linebox-like-decoration-drops-focus", "urwid/widget/attr_map.py", "AttrMap.render", "canv = self._original_widget.render(size, focus=focus)", "canv = self._original_widget.render(size)", "FOCUS-FWD|widget.attr_map.AttrMap.render"),
    Mut("popup-pack-drops-focus", "urwid/widget/popup.py", "PopUpTarget.pack", "return self._current_widget.pack(size, focus)", "return self._current_widget.pack(size)", "FOCUS-FWD|widget.popup.PopUpTarget.pack"),
    Mut("twin-html-map-reordered", _HT, "HtmlGenerator.draw_screen", "{1: 1, 16: 0, 88: 2, 256: 3, 2**24: 4}", "{16: 0, 1: 1, 88: 2, 256: 3, 2**24: 4}", twin=True),
]
