"""C09 - cursor position and mouse hit-testing agree with what is drawn."""

from __future__ import annotations

import ast
import re

from ..core import Ctx, RuleResult, finding, short
from ..model import AnalysisError, norm
from ..mutants import Mut
from ..rules import accum, alias, canv, fresh, optcall, dim, noop, posbound
from ..rules.geom import LOOP_INDEX, ClassGeom
from ..rules.util import callee_name, lin_str, linear, cfg_of, nodes_where
from ..tables import C09_DIM_EXCEPTIONS, C09_SIZE_EXCEPTIONS

EXPLANATION = (
    "Decided (necessary structural conditions of C09): (1) DIM: no cols/rows confusion in any geometry entry point (render, keypress, mouse_event, get_cursor_coords, "
    "move_cursor_to_coords, get_pref_col) of the containers and decorations; (2) size agreement per configuration: for every decoration (Filler, Padding, Overlay, Frame, BoxAdapter, "
    "PopUpTarget, Scrollable) and every valuation of (len(size), the instance attributes the class compares with constants), each canonical size an entry point can hand to its child is "
    "one render() hands to the same child under that valuation (branch tests decided by the valuation, definitions followed on the CFG, helper methods inlined, arithmetic canonicalised); "
    "Pile and Columns must hand child k the k-th element of the shared size helper's third result, with the same index as the child receiver; (3) offset inverse pairing: the translation "
    "subtracted from (col,row) before mouse_event / move_cursor_to_coords are forwarded equals the one added to the child's cursor in get_cursor_coords, per child and axis; "
    "(4) every get_cursor_coords implementation tests the child's answer against None before unpacking it; (6) NOOP: no geometry update adds a variable that was just reset to 0 (offset bookkeeping statements in the wrong order - e.g. ListBox's offset_rows, from which "
    "get_cursor_coords answers); (7) POSBOUND: hit-test bounds compare a coordinate with an extent half-open (`row >= maxrow - bottom`, never `>`); (5) every GridFlow entry point rebuilds the memoised display widget for "
    "the size it was asked about before delegating to it."
    ' Added after seed round 3: (9) ACCUM - the row offsets of Pile.move_cursor_to_coords / mouse_event and ListBox.mouse_event advance for every item passed; (10) Edit.move_cursor_to_coords compares the requested row only with rows derived from the layout (position_coords / get_line_translation).'
    ' Round 4: (11) OPTCALL (see C08.13); C09.10 now requires both bounds of the requested row and reports a missing one.'
    ' Round-4 triage: (12) Columns hit-testing skips hidden columns like render(); (13) ScrollBar.mouse_event subtracts the bar width from the column under the same side test under which render() draws the bar on the left. Round-5 triage: (14) Padding / Filler forward a mouse event only after a bounds test on every size branch.'
    ' Round 6: (15) ALIAS: the coords / shortcuts dictionaries a canvas edits in place (set_cursor, overlay, _drop_trimmed_cursor) only ever hold an object of its own - CompositeCanvas(canv) sharing canv.coords would write the top widget\'s cursor into the cached bottom canvas; Frame.keypress body size is compared with render (exception removed).'
    ' (16) every screen-order use of ListBox\'s bottom-up fill_above reverses it first; (17) a computed cursor column rejected on one side of the widget is rejected on the other side too.'
    ' Round 7: (18) FRESHLIST: no in-place edit of a shard list shared with a (cached) child canvas - a child that silently gains padding rows is drawn at another height than rows() / get_cursor_coords work with; (19) HIDDEN-DEP: a rendering that skips a child declares the dependency on every child (shared with C06.8).'
    " Round 8: (20) BOUND: calc_line_pos() never returns a segment's half-open end offset."
    " Round-8 triage: (21) POSBOUND: Overlay.get_cursor_coords() returns coordinates only under a test bounding both by the overlay's size and never clamps them (fix f0aa415)."
)
NOT_DECIDED = (
    "Agreement with the rendered canvas cursor (needs canvas semantics), loops of Pile/Columns/ListBox that accumulate offsets (equivalence of different loop shapes is not syntactic), "
    "entry points whose size derivation is not comparable (listed as uncompared in the evidence), hit-test bounds."
)
ASSUMPTIONS = [
    "Size agreement compares canonical *expressions* under each configuration; helper results (self.pack, self.filler_values, ...) are opaque atoms identified by helper name and index, "
    "so two entry points calling the same helper with different focus arguments are considered equal."
]

CMP = ("keypress", "mouse_event", "get_cursor_coords", "move_cursor_to_coords", "get_pref_col")
DECORATIONS = {
    # class -> minimum number of comparable (entry point, child) pairs confirmed by hand
    "urwid.widget.filler.Filler": 5,
    "urwid.widget.padding.Padding": 5,
    "urwid.widget.overlay.Overlay": 3,
    "urwid.widget.frame.Frame": 2,
    "urwid.widget.box_adapter.BoxAdapter": 5,
    "urwid.widget.popup.PopUpTarget": 5,
    "urwid.widget.scrollable.Scrollable": 2,
}
CONTAINERS = {
    "urwid.widget.pile.Pile": ("get_rows_sizes", 5),
    "urwid.widget.columns.Columns": ("get_column_sizes", 5),
}
GEOM_MODULES = [
    "urwid.widget.pile", "urwid.widget.columns", "urwid.widget.frame", "urwid.widget.filler", "urwid.widget.padding", "urwid.widget.overlay",
    "urwid.widget.box_adapter", "urwid.widget.listbox", "urwid.widget.edit", "urwid.widget.wimp", "urwid.widget.grid_flow", "urwid.widget.scrollable",
    "urwid.widget.popup", "urwid.widget.attr_map", "urwid.widget.widget_decoration", "urwid.widget.line_box", "urwid.widget.container",
]


def _eps(p, cg: ClassGeom):
    out = {}
    for n in ("render", *CMP):
        m = cg.method(n)
        if m is not None and m.cls is not None and m.cls.name not in ("Widget", "WidgetMeta"):
            out[n] = m
    return out


def rule_size_agreement(ctx: Ctx) -> RuleResult:
    p = ctx.p
    rr = RuleResult("GEOM", "C09.2", "per configuration, every size an entry point hands to a child is one render() hands to that child (decorations); containers index the shared size helper with the child's own index", floor=30)
    uncompared = []
    for cq, want in DECORATIONS.items():
        cls = p.cls(cq)
        cg = ClassGeom(p, cls)
        eps = _eps(p, cg)
        if "render" not in eps:
            raise AnalysisError(f"{cq}: render() not found")
        vals, dom = cg.valuations(list(eps.values()) + [f for f in p.all_class_functions(cls)])
        comparable = set()
        reported = set()
        for v in vals:
            ref: dict[str, set] = {}
            for recv, _meth, form, _why, _c in cg.child_sizes(eps["render"], v):
                ref.setdefault(recv, set()).add(form)
            for n in CMP:
                if n not in eps:
                    continue
                fi = eps[n]
                for recv, meth, form, why, c in cg.child_sizes(fi, v):
                    if meth not in CMP:
                        continue
                    ident = f"{short(fi)}->{recv}.{meth}"
                    if form is None:
                        uncompared.append(f"{ident}: {why}")
                        continue
                    if recv not in ref:
                        uncompared.append(f"{ident}: render() does not call this child under {v}")
                        continue
                    if None in ref[recv]:
                        uncompared.append(f"{ident}: render()'s size for this child is not comparable")
                        continue
                    ek = f"{short(fi)}:{recv}.{meth}"
                    if ek in C09_SIZE_EXCEPTIONS:
                        ex = C09_SIZE_EXCEPTIONS[ek]
                        if ex.get("when") is None or ex["when"] in str(v):
                            if f"{ek} - {ex['reason']}" not in rr.exceptions_used:
                                rr.exceptions_used.append(f"{ek} - {ex['reason']}")
                            continue
                    comparable.add(ident)
                    rr.inst(f"{ident}@{v}", True, {"entry": short(fi), "child": f"{recv}.{meth}", "configuration": str(v), "size": form, "render_sizes": sorted(ref[recv])} if len(rr.samples) < 5 else None)
                    if form not in ref[recv]:
                        key = (ident, form)
                        if key in reported:
                            continue
                        reported.add(key)
                        rr.add(
                            finding(
                                "GEOM", fi, c,
                                f"{n}() hands `{recv}` the size {form} but render() hands it {' or '.join(sorted(ref[recv]))} when {v}: the widget is asked about a geometry it is not drawn with",
                                construct=f"{recv}.{meth} size {form} vs render {'|'.join(sorted(ref[recv]))}",
                                configuration=str(v),
                            )
                        )
        if len(comparable) < want and not rr.findings:
            raise AnalysisError(f"C09.2: only {len(comparable)} comparable (entry point, child) pairs in {cq}, {want} confirmed by hand - the rule no longer sees the class's geometry")
    # containers
    for cq, (helper, want) in CONTAINERS.items():
        cls = p.cls(cq)
        cg = ClassGeom(p, cls)
        eps = _eps(p, cg)
        vals, _dom = cg.valuations([])
        pat = re.compile(r"^<" + re.escape(helper) + r">\[2\]\[(.*)\]$")
        comparable = set()
        for v in vals[:1]:
            for n, fi in eps.items():
                for recv, meth, form, why, c in cg.child_sizes(fi, v):
                    if meth not in (*CMP, "render"):
                        continue
                    ident = f"{short(fi)}->{recv}.{meth}"
                    if form is None:
                        uncompared.append(f"{ident}: {why}")
                        continue
                    rr.inst(ident, True, {"entry": short(fi), "child": f"{recv}.{meth}", "size": form} if len(rr.samples) < 7 else None)
                    comparable.add(ident)
                    m = pat.match(form)
                    if not m:
                        rr.add(finding("GEOM", fi, c, f"{n}() hands child `{recv}` the size `{form}`, not an element of self.{helper}(size, focus)[2] - the sizes render() uses", construct=f"{recv}.{meth} size {form} not from {helper}"))
                        continue
                    idx = m.group(1)
                    ridx = _receiver_index(recv)
                    if ridx is None:
                        uncompared.append(f"{ident}: receiver `{recv}` has no recognisable child index")
                        continue
                    if ridx != idx:
                        rr.add(finding("GEOM", fi, c, f"{n}() calls child [{ridx}] with the size computed for child [{idx}]", construct=f"{recv}.{meth} index {ridx} vs size index {idx}"))
        if len(comparable) < want and not rr.findings:
            raise AnalysisError(f"C09.2: only {len(comparable)} comparable child calls in {cq}, {want} confirmed by hand")
    rr.units = {"uncompared": sorted(set(uncompared))}
    rr.notes.append(f"uncompared (entry point, child) derivations: {len(set(uncompared))} (listed in evidence units)")
    return rr


def _receiver_index(recv: str):
    if recv == "self.focus":
        return "self.focus_position"
    m = re.match(r"^self\._?contents\[(.*)\]\[0\]$", recv)
    if m:
        return m.group(1)
    return None


# --------------------------------------------------------------------------- offsets
_COORD = re.compile(r"^(.*)\.get_cursor_coords\(.*\)\[([01])\]$")
OFFSET_CLASSES = {
    "urwid.widget.filler.Filler": 2,
    "urwid.widget.padding.Padding": 2,
    "urwid.widget.overlay.Overlay": 2,
    "urwid.widget.frame.Frame": 2,
}


def _norm_terms(cg, fi, e):
    return cg.normalise(e, fi)


def rule_offsets(ctx: Ctx) -> RuleResult:
    p = ctx.p
    rr = RuleResult("PAIR", "C09.3", "the translation removed from (col,row) before forwarding mouse_event / move_cursor_to_coords equals the one added to the child's cursor in get_cursor_coords", floor=10)
    uncompared = []
    for cq, want in OFFSET_CLASSES.items():
        cls = p.cls(cq)
        cg = ClassGeom(p, cls)
        eps = _eps(p, cg)
        vals, _ = cg.valuations(list(eps.values()) + [f for f in p.all_class_functions(cls)])
        n_cmp = 0
        reported = set()
        for v in vals:
            fwd: dict[tuple, set] = {}  # (recv, axis) -> offsets removed when forwarding
            fwd_src: dict[tuple, list] = {}
            for n in ("mouse_event", "move_cursor_to_coords"):
                fi = eps.get(n)
                if fi is None:
                    continue
                du = cg.du(fi)
                cache = {}
                live = cg.reach(fi, [du.cfg.entry], v, cache=cache, include_start=True)
                ps = fi.params
                cpar, rpar = ("col", "row") if n == "mouse_event" else (ps[2], ps[3])
                for c in fi.own_nodes():
                    if not (isinstance(c, ast.Call) and isinstance(c.func, ast.Attribute) and c.func.attr == n):
                        continue
                    rv = c.func.value
                    if isinstance(rv, ast.Name) and rv.id == fi.self_name or isinstance(rv, ast.Call):
                        continue
                    at = du.node_of(c)
                    if at is None or at not in live:
                        continue
                    pos = (3, 4) if n == "mouse_event" else (1, 2)
                    if len(c.args) <= pos[1]:
                        continue
                    recvs = {ast.unparse(cg.normalise(x, fi)) for x in cg.alts(fi, rv, at, v, live, cache)}
                    for axis, (ai, par) in enumerate(zip(pos, (cpar, rpar))):
                        for alt in cg.alts(fi, c.args[ai], at, v, live, cache):
                            if cg.unresolved_locals(alt, fi):
                                uncompared.append(f"{short(fi)}: forwarded {'col' if axis == 0 else 'row'} `{norm(c.args[ai], 40)}` depends on locals with several definitions")
                                continue
                            L = linear(cg.normalise(alt, fi))
                            if L is None or L.get(par) != 1:
                                uncompared.append(f"{short(fi)}: forwarded {'col' if axis == 0 else 'row'} `{norm(c.args[ai], 40)}` is not {par} - offset")
                                continue
                            off = {k: -val for k, val in L.items() if k != par}
                            for recv in recvs:
                                fwd.setdefault((recv, axis), set()).add(lin_str(off))
                                fwd_src.setdefault((recv, axis), []).append((fi, c))
            gi = eps.get("get_cursor_coords")
            if gi is None:
                continue
            du = cg.du(gi)
            cache = {}
            live = cg.reach(gi, [du.cfg.entry], v, cache=cache, include_start=True)
            for r in gi.own_nodes():
                if not (isinstance(r, ast.Return) and isinstance(r.value, ast.Tuple) and len(r.value.elts) == 2):
                    continue
                at = du.node_of(r)
                if at is None or at not in live:
                    continue
                for axis, e in enumerate(r.value.elts):
                    for alt in cg.alts(gi, e, at, v, live, cache):
                        if cg.unresolved_locals(alt, gi):
                            continue
                        L = linear(cg.normalise(alt, gi))
                        if L is None:
                            continue
                        atoms = [(k, _COORD.match(k)) for k in L if _COORD.match(k)]
                        if len(atoms) != 1 or L[atoms[0][0]] != 1 or int(atoms[0][1].group(2)) != axis:
                            continue
                        recv = atoms[0][1].group(1)
                        off = lin_str({k: val for k, val in L.items() if k != atoms[0][0]})
                        key = (recv, axis)
                        if key not in fwd:
                            continue
                        n_cmp += 1
                        ident = f"{short(gi)}:{recv}:{'col' if axis == 0 else 'row'}@{v}"
                        rr.inst(ident, True, {"class": cls.name, "child": recv, "axis": "col" if axis == 0 else "row", "configuration": str(v), "cursor_offset": off, "forward_offsets": sorted(fwd[key])} if len(rr.samples) < 6 else None)
                        if off not in fwd[key]:
                            rk = (recv, axis, off)
                            if rk in reported:
                                continue
                            reported.add(rk)
                            src_fi, src_c = fwd_src[key][0]
                            rr.add(
                                finding(
                                    "PAIR", gi, r,
                                    f"get_cursor_coords() places the child's cursor {'column' if axis == 0 else 'row'} at child + ({off}) but {src_fi.name}() forwards {'col' if axis == 0 else 'row'} - ({' | '.join(sorted(fwd[key]))}) to `{recv}` when {v}: cursor and hit-testing disagree about where the child is drawn",
                                    construct=f"{recv} {'col' if axis == 0 else 'row'} offset {off} vs {'|'.join(sorted(fwd[key]))}",
                                )
                            )
        if n_cmp < want and not rr.findings:
            raise AnalysisError(f"C09.3: {n_cmp} comparable offsets in {cq}, {want} confirmed by hand")
    rr.units = {"uncompared": sorted(set(uncompared))}
    return rr


# --------------------------------------------------------------------------- None guard
def rule_none_guard(ctx: Ctx) -> RuleResult:
    p = ctx.p
    rr = RuleResult("GUARD", "C09.4", "every get_cursor_coords() tests the child's answer against None before unpacking or indexing it", floor=8)
    from ..rules.defuse import DefUse

    for fi in p.functions.values():
        if fi.name != "get_cursor_coords" or fi.cls is None or fi.is_lambda:
            continue
        calls = [c for c in fi.own_nodes() if isinstance(c, ast.Call) and isinstance(c.func, ast.Attribute) and c.func.attr == "get_cursor_coords" and not (isinstance(c.func.value, ast.Call) and ast.unparse(c.func.value.func) == "super")]
        if not calls:
            continue
        du = DefUse(fi)
        cfg = du.cfg
        for c in calls:
            ident = f"{short(fi)}:{norm(c, 60)}"
            # how is the result used?
            parent = None
            for n in fi.own_nodes():
                for ch in ast.iter_child_nodes(n):
                    if ch is c:
                        parent = n
            at = du.node_of(c)
            if isinstance(parent, ast.Return):
                rr.inst(ident, False)
                continue
            rr.inst(ident, True, {"function": short(fi), "call": norm(c, 60)} if len(rr.samples) < 4 else None)
            name = None
            if isinstance(parent, ast.NamedExpr) and isinstance(parent.target, ast.Name):
                name = parent.target.id
            elif isinstance(parent, ast.Assign) and len(parent.targets) == 1 and isinstance(parent.targets[0], ast.Name):
                name = parent.targets[0].id
            if name is None:
                # direct unpack / subscript of the call
                rr.add(finding("GUARD", fi, parent if parent is not None else c, "the child's get_cursor_coords() result is unpacked or indexed directly: a child without a cursor (None) raises TypeError instead of yielding None", construct=f"unguarded {norm(c, 60)}"))
                continue
            # every unpack / subscript use of `name` must be dominated by a None / truthiness test of it
            uses = []
            for n in cfg.nodes:
                if n.ast is None or n is at:
                    continue
                a = n.ast
                if isinstance(a, ast.Assign) and isinstance(a.value, ast.Name) and a.value.id == name and isinstance(a.targets[0], (ast.Tuple, ast.List)):
                    uses.append(n)
                elif any(isinstance(x, ast.Subscript) and isinstance(x.value, ast.Name) and x.value.id == name for x in ast.walk(a) if not isinstance(a, (ast.FunctionDef,))):
                    uses.append(n)
            tests = []
            for n in cfg.nodes:
                if n.kind != "test":
                    continue
                t = n.ast
                alive = None
                if isinstance(t, ast.Compare) and len(t.ops) == 1 and isinstance(t.comparators[0], ast.Constant) and t.comparators[0].value is None:
                    l = t.left.target if isinstance(t.left, ast.NamedExpr) else t.left
                    if isinstance(l, ast.Name) and l.id == name:
                        alive = "T" if isinstance(t.ops[0], ast.IsNot) else "F" if isinstance(t.ops[0], ast.Is) else None
                elif isinstance(t, ast.Name) and t.id == name:
                    alive = "T"
                elif isinstance(t, ast.UnaryOp) and isinstance(t.op, ast.Not) and isinstance(t.operand, ast.Name) and t.operand.id == name:
                    alive = "F"
                if alive:
                    tests.append((n, alive))
            for u in uses:
                ok = False
                for t, alive in tests:
                    dead = "F" if alive == "T" else "T"
                    if u not in cfg.reachable_from_edges([(t, dead)], avoid=[t]) and cfg.dominated(u, [t]):
                        ok = True
                if not ok:
                    rr.add(finding("GUARD", fi, u.stmt, f"`{name}` (the child's get_cursor_coords() answer) is unpacked without a preceding None test: a child without a cursor raises TypeError where the rendered canvas simply has no cursor", construct=f"unguarded use of {name}: {norm(u.stmt, 60)}"))
    return rr


def rule_display_refresh(ctx: Ctx) -> RuleResult:
    """GridFlow answers every geometry question from a display widget (Pile of Columns) memoised per
    width; each entry point must rebuild it for the size it was asked about before delegating."""
    from ..rules.util import cfg_of, nodes_where

    p = ctx.p
    rr = RuleResult("MEMO", "C09.5", "every GridFlow entry point rebuilds the memoised display widget for the given size before delegating to it", floor=7)
    cls = p.cls("urwid.widget.grid_flow.GridFlow")
    if "get_display_widget" not in cls.methods:
        raise AnalysisError("GridFlow.get_display_widget not found")
    for fi in p.all_class_functions(cls):
        sup = [c for c in fi.own_nodes() if isinstance(c, ast.Call) and isinstance(c.func, ast.Attribute) and isinstance(c.func.value, ast.Call) and isinstance(c.func.value.func, ast.Name) and c.func.value.func.id == "super" and c.func.attr == fi.name and c.args and isinstance(c.args[0], ast.Name) and c.args[0].id == "size"]
        if not sup or fi.name == "pack":
            continue
        cfg = cfg_of(fi)
        refresh = nodes_where(cfg, lambda x: isinstance(x, ast.Call) and ast.unparse(x.func) == "self.get_display_widget" and x.args and isinstance(x.args[0], ast.Name) and x.args[0].id == "size")
        for c in sup:
            rr.inst(f"{short(fi)}:{norm(c, 50)}", True, {"function": short(fi), "delegation": norm(c, 60), "refresh_calls": len(refresh)} if len(rr.samples) < 4 else None)
            cn = nodes_where(cfg, lambda x, c=c: x is c)
            if not refresh or not all(cfg.dominated(n, refresh) for n in cn):
                rr.add(finding("MEMO", fi, c, f"{fi.name}() delegates to the memoised display widget without first calling self.get_display_widget(size): after a width change or a programmatic focus change it answers for the previous layout", construct=f"{fi.name} delegates without refresh"))
    return rr


def _empty_guard(ctx: Ctx):
    from . import c08

    return c08.rule_empty_guard(ctx, "C09.8")


def rule_edit_row_range(ctx: Ctx, clause: str = "C09.10") -> RuleResult:
    """Edit.move_cursor_to_coords accepts a row only if the cursor can be put on it: the bounds the requested row is
    compared with are display rows taken from the layout (the row of edit position 0 from position_coords(), the
    number of layout lines) - a count made on the raw caption text does not know where the caption wraps."""
    from ..rules.defuse import DefUse

    p = ctx.p
    rr = RuleResult("KIND", clause, "Edit.move_cursor_to_coords bounds the requested row on both sides by rows derived from the layout (position_coords / get_line_translation)", floor=1)
    fi = p.func("urwid.widget.edit.Edit.move_cursor_to_coords")
    du = DefUse(fi)
    y = fi.params[3]
    LAYOUT = ("position_coords(", "get_line_translation(", "calc_coords(")
    n = 0
    for node in du.cfg.nodes:
        if node.kind != "test":
            continue
        for c in ast.walk(node.ast):
            if isinstance(c, ast.Compare) and len(c.ops) == 1 and any(isinstance(x, ast.Name) and x.id == y for x in (c.left, c.comparators[0])):
                other = c.comparators[0] if isinstance(c.left, ast.Name) and c.left.id == y else c.left
                txt = du.text(other, node)
                n += 1
                rr.inst(norm(c, 40), True, {"comparison": norm(c, 40), "bound_is": txt[:80]})
                if not isinstance(other, ast.Constant) and not any(k in txt for k in LAYOUT):
                    rr.add(finding("KIND", fi, c, f"the requested row is compared with `{txt[:80]}`, which is not derived from the layout (position_coords / get_line_translation): with a caption that wraps, caption-only rows are accepted, the move reports success and the cursor ends up on another row", construct=f"row bound not from the layout: {norm(c, 40)}"))
    # both bounds are needed: the first row that holds edit text (position_coords of offset 0 - caption rows above it
    # are not targets) and the number of layout rows
    texts = [smp["bound_is"] for smp in rr.samples if isinstance(smp, dict) and "bound_is" in smp]
    lower = any("position_coords(" in t for t in texts)
    upper = any("get_line_translation(" in t for t in texts)
    if not (lower and upper) and not rr.findings:
        rr.add(finding("KIND", fi, fi.node, f"move_cursor_to_coords no longer bounds the requested row by {'the row of the first edit character (position_coords(maxcol, 0))' if not lower else 'the number of layout rows'}: rows that hold only caption text are accepted as targets, `up` from the first edit row is swallowed and the cursor jumps to offset 0", construct="requested row not bounded by the layout on both sides"))
    return rr


def rule_hidden_columns(ctx: Ctx) -> RuleResult:
    """Columns hides a column whose width is 0 *together with its divider*.  render() positions the visible columns
    that way; every other function that adds up column widths plus dividechars to find where a column is
    (get_cursor_coords, move_cursor_to_coords, mouse_event, get_pref_col ...) has to skip non-positive widths too, or
    every click / cursor position right of a hidden column is off by the divider width."""
    p = ctx.p
    rr = RuleResult("SIB", "C09.12", "every Columns function that adds up widths and dividers skips hidden (width <= 0) columns, as render() does", floor=3)
    C = p.cls("urwid.widget.columns.Columns")
    for fi in C.methods.values():
        src = ast.unparse(fi.node)
        if "dividechars" not in src or fi.name in ("__init__", "column_widths", "get_column_sizes", "_get_fixed_column_sizes", "_get_flow_column_sizes", "_get_fixed_rendered_size", "rows", "pack") or fi.name.startswith("_"):
            continue
        # loops / comprehensions whose element is a width and whose body adds dividechars
        sites = []
        for n in fi.own_nodes():
            if isinstance(n, ast.For) and "dividechars" in ast.unparse(n) and "widths" in ast.unparse(n.iter):
                sites.append(("loop", n))
            elif isinstance(n, (ast.GeneratorExp, ast.ListComp)) and "dividechars" in ast.unparse(n.elt) and any("widths" in ast.unparse(g.iter) for g in n.generators):
                sites.append(("comprehension", n))
        # dividers exist only between *drawn* columns: a left edge computed from the column index
        # (`i * self.dividechars`) charges one for every hidden column too
        for n in fi.own_nodes():
            if isinstance(n, ast.BinOp) and isinstance(n.op, ast.Mult) and any(isinstance(x, ast.Attribute) and x.attr == "dividechars" for x in (n.left, n.right)):
                rr.inst(f"{short(fi)}:{norm(n, 40)}", True)
                rr.add(finding("SIB", fi, n, f"`{norm(n, 50)}` in {fi.name}() counts one divider per column *index*: render() leaves a hidden (zero width) column out together with its divider, so everything right of a hidden column is located dividechars columns too far right (clicks are dropped or reach the child with shifted coordinates)", construct=f"{fi.name}: dividers counted per index: {norm(n, 40)}"))
        for kind, n in sites:
            has = any(isinstance(c, ast.Compare) and len(c.ops) == 1 and isinstance(c.comparators[0], ast.Constant) and c.comparators[0].value == 0 and isinstance(c.ops[0], (ast.LtE, ast.Gt, ast.Lt, ast.GtE, ast.Eq, ast.NotEq)) for c in ast.walk(n)) or any(isinstance(t, ast.UnaryOp) and isinstance(t.op, ast.Not) for g in getattr(n, "generators", []) for t in g.ifs)
            rr.inst(f"{short(fi)}:{kind}", True, {"function": short(fi), "site": norm(n if kind != 'loop' else n.iter, 50), "skips_hidden": has})
            if not has:
                rr.add(finding("SIB", fi, n, f"{fi.name}() adds up column widths and dividers without skipping hidden (width <= 0) columns: render() leaves such a column out together with its divider, so everything right of it is {'hit-tested' if 'mouse' in fi.name or 'move' in fi.name else 'located'} dividechars columns too far right", construct=f"{fi.name}: hidden columns not skipped"))
    return rr


def rule_scrollbar_side(ctx: Ctx) -> RuleResult:
    """ScrollBar.render() joins the wrapped widget's canvas and the bar in an order that depends on the side
    (`CanvasJoin(reversed(combinelist))` for the left side): with the bar on the left the child is drawn one bar
    width to the right.  mouse_event() forwards (col, row) to the child and therefore has to undo that shift
    under the same side test: a branch on _scrollbar_side on which `col` is reduced by the bar width (the view
    width minus the width the child was rendered at)."""
    from ..rules.defuse import DefUse
    from ..rules.util import linear

    p = ctx.p
    rr = RuleResult("SIB", "C09.13", "ScrollBar.mouse_event shifts the column by the bar width under the same side test under which render() draws the bar first", floor=2)
    cls = p.cls("urwid.widget.scrollable.ScrollBar")
    rn, me = cls.methods["render"], cls.methods["mouse_event"]
    side_tests_r = [n for n in rn.own_nodes() if isinstance(n, (ast.If, ast.IfExp)) and any(isinstance(x, ast.Attribute) and x.attr == "_scrollbar_side" for x in ast.walk(n.test))]
    rr.inst("render: side-dependent join", True, {"tests": [norm(t.test, 60) for t in side_tests_r]})
    if not side_tests_r:
        raise AnalysisError("ScrollBar.render: the test of _scrollbar_side that decides the join order was not found")
    colp = me.params[4]
    sizep = me.params[1]
    side_tests_m = [n for n in me.own_nodes() if isinstance(n, ast.If) and any(isinstance(x, ast.Attribute) and x.attr == "_scrollbar_side" for x in ast.walk(n.test))]
    du = DefUse(me)
    shifted = False
    for t in side_tests_m:
        for st in t.body + t.orelse:
            for a in ast.walk(st):
                val = None
                if isinstance(a, ast.AugAssign) and isinstance(a.target, ast.Name) and a.target.id == colp and isinstance(a.op, ast.Sub):
                    val = a.value
                elif isinstance(a, ast.Assign) and any(isinstance(x, ast.Name) and x.id == colp for x in a.targets) and isinstance(a.value, ast.BinOp) and isinstance(a.value.op, ast.Sub) and isinstance(a.value.left, ast.Name) and a.value.left.id == colp:
                    val = a.value.right
                if val is None:
                    continue
                at = du.node_of(a) or (du.cfg.stmt_nodes(a) or [None])[0]
                L = linear(du.expand(val, at)) if at is not None else linear(val)
                # bar width = view width - child width: one positive term mentioning the size parameter, one negative term
                if L and any(v == 1 and sizep in k for k, v in L.items()) and any(v == -1 for v in L.values()):
                    shifted = True
    rr.inst("mouse_event: column shifted under the side test", True, {"side_tests": [norm(t.test, 60) for t in side_tests_m], "shift_found": shifted})
    if not shifted:
        rr.add(finding("SIB", me, me.node, "ScrollBar.mouse_event forwards the column to the wrapped widget without subtracting the bar width on the branch where render() draws the bar on the left: with side='left' every click reaches the child one bar width too far right", construct="mouse column not shifted for a left-side bar"))
    return rr


def rule_hit_test_every_branch(ctx: Ctx) -> RuleResult:
    """'a mouse event on a cell where a child widget is drawn is delivered to that child ... and to no other': a
    decoration that puts margins around its child forwards a mouse event only after it has tested the coordinate
    against the child's extent - on *every* path to the forwarding call, whichever way the size was given (box,
    flow, fixed).  A branch without the test hands clicks in the margin to the child with coordinates outside it."""
    p = ctx.p
    rr = RuleResult("GUARD", "C09.14", "Padding / Filler forward a mouse event only after a bounds test of the shifted coordinate on every path", floor=2)
    for q, pi in (("urwid.widget.padding.Padding", 4), ("urwid.widget.filler.Filler", 5)):
        fi = p.cls(q).methods["mouse_event"]
        coord = fi.params[pi]
        cfg = cfg_of(fi)
        fwd_ = nodes_where(cfg, lambda x: isinstance(x, ast.Call) and isinstance(x.func, ast.Attribute) and x.func.attr == "mouse_event" and not (isinstance(x.func.value, ast.Call)))
        tests = [t for t in cfg.nodes if t.kind == "test" and any(isinstance(c, ast.Compare) and isinstance(c.left, ast.Name) and c.left.id == coord and isinstance(c.ops[0], (ast.Lt, ast.GtE, ast.Gt, ast.LtE)) for c in ast.walk(t.ast)) and any(x.kind == "return" for x, lab in t.succ if lab == "T")]
        if not fwd_:
            raise AnalysisError(f"{q}.mouse_event: the forwarding call was not found")
        for f in fwd_:
            ok = bool(tests) and cfg.dominated(f, tests)
            rr.inst(f"{short(fi)}", True, {"function": short(fi), "coordinate": coord, "bounds_tests": [norm(t.ast, 60) for t in tests], "on_every_path": ok})
            if not ok:
                path = cfg.witness_path(cfg.entry, [f], avoid=tests, labels=("n", "T", "F"))
                via = next((norm(n.ast, 50) for n in reversed(path or []) if n.kind == "test"), "?")
                rr.add(finding("GUARD", fi, f.stmt, f"`{norm(f.stmt, 60)}` is reachable (via `{via}`) without a bounds test of `{coord}`: on that size branch a click in the margin is delivered to the wrapped widget with a coordinate outside it (negative, or beyond its extent) instead of being refused", construct=f"{fi.name}: forwarded without a bounds test on a size branch"))
    return rr


def rule_visible_order(ctx: Ctx) -> RuleResult:
    """ListBox.calculate_visible() reports the widgets above the focus *bottom-up* (nearest to the focus first) and
    those below top-down.  Every consumer that lays the three parts out in screen order - one sequence of
    fill_above, the focus, fill_below: a list display with both starred, or one accumulator filled in a loop over
    fill_above and in a loop over fill_below - has to turn fill_above round first (`.reverse()` / reversed()).
    render() does; a consumer that does not (mouse_event) sends the event to a child that is not drawn on the
    clicked row as soon as two children are above the focus."""
    p = ctx.p
    rr = RuleResult("SIB", "C09.16", "every ListBox method that lays out fill_above, the focus and fill_below in screen order reverses the bottom-up fill_above first", floor=2)
    cls = p.cls("urwid.widget.listbox.ListBox")
    for fi in cls.methods.values():
        vis = [n.targets[0] for n in fi.own_nodes() if isinstance(n, ast.Assign) and isinstance(n.value, ast.Call) and isinstance(n.value.func, ast.Attribute) and n.value.func.attr == "calculate_visible" and isinstance(n.targets[0], ast.Tuple) and len(n.targets[0].elts) == 3 and all(isinstance(e, ast.Name) for e in n.targets[0].elts)]
        if not vis:
            continue
        top_name, bottom_name = vis[0].elts[1].id, vis[0].elts[2].id
        above = {t.elts[1].id for n in fi.own_nodes() if isinstance(n, ast.Assign) and isinstance(n.value, ast.Name) and n.value.id == top_name and isinstance(n.targets[0], ast.Tuple) and len(n.targets[0].elts) == 2 for t in [n.targets[0]] if isinstance(t.elts[1], ast.Name)}
        below = {t.elts[1].id for n in fi.own_nodes() if isinstance(n, ast.Assign) and isinstance(n.value, ast.Name) and n.value.id == bottom_name and isinstance(n.targets[0], ast.Tuple) and len(n.targets[0].elts) == 2 for t in [n.targets[0]] if isinstance(t.elts[1], ast.Name)}
        if not above or not below:
            continue
        A, B = sorted(above)[0], sorted(below)[0]
        uses = []
        for n in fi.own_nodes():
            if isinstance(n, (ast.List, ast.Tuple)):
                st = [e.value.id for e in n.elts if isinstance(e, ast.Starred) and isinstance(e.value, ast.Name)]
                if A in st and B in st:
                    uses.append(n)
        loopsA = [n for n in fi.own_nodes() if isinstance(n, ast.For) and isinstance(n.iter, ast.Name) and n.iter.id == A]
        loopsB = [n for n in fi.own_nodes() if isinstance(n, ast.For) and isinstance(n.iter, ast.Name) and n.iter.id == B]

        def appended(lp):
            return {c.func.value.id for c in ast.walk(lp) if isinstance(c, ast.Call) and isinstance(c.func, ast.Attribute) and c.func.attr == "append" and isinstance(c.func.value, ast.Name)}

        for la in loopsA:
            for lb in loopsB:
                if appended(la) & appended(lb):
                    uses.append(la)
        if not uses:
            continue
        cfg = cfg_of(fi)
        revs = nodes_where(cfg, lambda c: isinstance(c, ast.Call) and isinstance(c.func, ast.Attribute) and c.func.attr == "reverse" and isinstance(c.func.value, ast.Name) and c.func.value.id == A)
        for u in uses:
            un = next((x for x in cfg.nodes if x.stmt is u or (x.ast is not None and any(y is u for y in ast.walk(x.ast)))), None)
            ok = un is not None and bool(revs) and cfg.dominated(un, revs)
            rr.inst(f"{short(fi)}: {norm(u, 40)}", True, {"method": short(fi), "screen_order_use": norm(u, 70), "reversed_first": ok})
            if not ok:
                rr.add(finding("SIB", fi, u, f"`{norm(u, 60)}` lays out `{A}`, the focus and `{B}` in screen order but `{A}` is still in the bottom-up order calculate_visible() reports it in (no `{A}.reverse()` before): with two or more children above the focus the rows are attributed to the wrong children - render() draws child #0 on the top row, this method takes it for the child next to the focus", construct=f"{A} used in screen order without reverse()"))
    return rr


def rule_two_sided(ctx: Ctx, clause="C09.17") -> RuleResult:
    """A leaf widget that computes its cursor column from the text layout (calc_coords) and refuses to report it when it
    lies beyond the right edge (`if maxcol <= x: return None`) does not trust the layout to keep the column inside the
    widget - then the left edge needs the same care: with wrap='clip' and right / centre alignment the layout starts
    at a negative column.  A get_cursor_coords() that rejects the computed column against the width on one side
    rejects it against 0 on the other (one-sided comparison: 'x >= maxcol handled, x < 0 not')."""
    from ..rules.runpos import _atoms

    p = ctx.p
    rr = RuleResult("POSBOUND", clause, "a get_cursor_coords() that rejects its computed column beyond the right edge also rejects a negative one", floor=1)
    for fi in p.functions.values():
        if fi.name != "get_cursor_coords" or not fi.module.name.startswith("urwid.widget") or fi.is_lambda:
            continue
        # columns computed here: first element unpacked from a calc_coords(...) call
        cols = {n.targets[0].elts[0].id for n in fi.own_nodes() if isinstance(n, ast.Assign) and isinstance(n.value, ast.Call) and callee_name(n.value) == "calc_coords" and isinstance(n.targets[0], ast.Tuple) and n.targets[0].elts and isinstance(n.targets[0].elts[0], ast.Name)}
        if not cols:
            continue
        cfg = cfg_of(fi)
        for x in sorted(cols):
            upper = lower = False
            for t in cfg.nodes:
                if t.kind != "test":
                    continue
                rejects_on = [lab for tg, lab in t.succ if lab in ("T", "F") and tg.kind == "return" and isinstance(tg.ast.value, ast.Constant) and tg.ast.value.value is None]
                for lab in rejects_on:
                    for e, o in _atoms(t.ast, lab == "T") if lab == "T" else []:
                        pass
                # facts that hold where the coordinate is *kept*: the other edge of a rejecting test
                for lab in rejects_on:
                    keep = lab != "T"
                    for e, o in _atoms(t.ast, keep):
                        names = {k for k in e if k}
                        if x not in names:
                            continue
                        cx = e[x]
                        # kept under  x - W < 0  (cx > 0, op <)  or  W - x > 0
                        if len(names) == 2 and ((cx > 0 and o == "<") or (cx < 0 and o == ">")):
                            upper = True
                        # kept under  x >= 0  /  -x <= 0
                        if names == {x} and ((cx > 0 and o in (">=", ">")) or (cx < 0 and o in ("<=", "<"))):
                            lower = True
            if not upper and not lower:
                continue
            rr.inst(f"{short(fi)}: {x}", True, {"method": short(fi), "column": x, "rejected_beyond_the_right_edge": upper, "rejected_below_zero": lower})
            if upper != lower:
                rr.add(finding("POSBOUND", fi, fi.node, f"{short(fi)}() refuses to report the column `{x}` {'beyond the right edge' if upper else 'below 0'} but not {'below 0' if upper else 'beyond the right edge'}: with wrap='clip' and right / centre alignment the layout puts the cursor at a negative column, which is reported (and rendered) as a cursor outside the widget", construct=f"column {x} checked on one side only"))
    return rr


def rule_overlay_cursor_clipped(ctx: Ctx) -> RuleResult:
    """'the reported cursor equals the one in the rendered canvas': a top widget taller (or wider) than the space the
    Overlay has is clipped by the rendering, and a cursor in the clipped part is dropped with it (C01.20).
    Overlay.get_cursor_coords() therefore returns translated coordinates only where a test has shown both of them
    inside the overlay's own size - and never moves a coordinate into range (a clamped row puts the cursor on a
    cell the cursor is not in).  Before fix f0aa415 it clamped y to maxrow - 1: canvas cursor None, reported (6, 3)."""
    from ..rules.exc import ExcEngine

    p = ctx.p
    rr = RuleResult("POSBOUND", "C09.21", "Overlay.get_cursor_coords() returns coordinates only under a test that bounds both by the overlay's size, and never clamps them", floor=1)
    fi = p.func("urwid.widget.overlay.Overlay.get_cursor_coords")
    cfg = cfg_of(fi)
    size_names = None
    for n in fi.own_nodes():
        if isinstance(n, ast.Assign) and isinstance(n.targets[0], ast.Tuple) and len(n.targets[0].elts) == 2 and isinstance(n.value, ast.Name) and all(isinstance(e, ast.Name) for e in n.targets[0].elts):
            size_names = [e.id for e in n.targets[0].elts]
    if size_names is None:
        raise AnalysisError("Overlay.get_cursor_coords: `(maxcol, maxrow) = <size>` not found")
    rets = [r for r in cfg.nodes if r.kind == "return" and r.ast.value is not None and not (isinstance(r.ast.value, ast.Constant) and r.ast.value.value is None)]
    if not rets:
        raise AnalysisError("Overlay.get_cursor_coords: no coordinate return found")
    for r in rets:
        ok = False
        for t in cfg.nodes:
            if t.kind == "test" and all(any(isinstance(x, ast.Name) and x.id == s_ for x in ast.walk(t.ast)) for s_ in size_names):
                if r not in ExcEngine._reach_without_edge(cfg, t, "T") or r not in ExcEngine._reach_without_edge(cfg, t, "F"):
                    ok = True
        clamps = [n for n in fi.own_nodes() if isinstance(n, ast.Assign) and len(n.targets) == 1 and isinstance(n.targets[0], ast.Name) and linear(n.value) is not None and any(k in size_names for k in linear(n.value))]
        rr.inst(norm(r.ast, 40), True, {"return": norm(r.ast, 50), "bounded_by_both_dimensions": ok, "clamps": [norm(c, 30) for c in clamps]})
        if not ok or clamps:
            rr.add(finding("POSBOUND", fi, r.ast, f"`{norm(r.ast, 50)}` reports the translated cursor without a test that bounds both coordinates by ({', '.join(size_names)})" + (f" (and `{norm(clamps[0], 30)}` moves a coordinate into range)" if clamps else "") + ": when the top widget is clipped the rendering shows no cursor (or none at that cell) while a position is reported - the container above places the terminal cursor on a cell of another widget", construct="overlay cursor reported without clipping test"))
    return rr


def rule_line_pos_inside_segment(ctx: Ctx) -> RuleResult:
    """calc_line_pos() answers with a text offset *on the requested line*: a segment (columns, offs, end) covers the
    half-open offsets offs..end, and `end` is where the next line starts (a line that ends at a wrap point has no
    trailing hint segment).  Every offset it returns is the start of a segment (`.offs`), an int remembered from
    one, or the offset calc_text_pos() found inside offs..end - never a segment's `.end`: calc_coords() maps that
    offset to column 0 of the following row, the cursor lands on another row than the one move_cursor_to_coords()
    was asked for and reported success on (seed C09-r8a)."""
    p = ctx.p
    rr = RuleResult("BOUND", "C09.20", "calc_line_pos() never returns a segment's half-open end offset", floor=4)
    fi = p.func("urwid.text_layout.calc_line_pos")
    for r in [n for n in fi.own_nodes() if isinstance(n, ast.Return) and n.value is not None]:
        v = r.value
        bad = [x for x in ast.walk(v) if isinstance(x, ast.Attribute) and x.attr == "end" and not any(isinstance(c, ast.Call) and callee_name(c) == "calc_text_pos" and any(y is x for y in ast.walk(c)) for c in ast.walk(v))]
        rr.inst(norm(r, 60), True, {"return": norm(r, 70), "returns_segment_end": bool(bad)})
        if bad:
            rr.add(finding("BOUND", fi, r, f"`{norm(r, 60)}` returns `{ast.unparse(bad[0])}`, the half-open end of a segment: for a line that ends at a wrap point this is the first offset of the next line - the cursor is placed at column 0 of the following row although the move was reported as done on the requested row", construct="calc_line_pos returns a segment end"))
    return rr


def run(ctx: Ctx):
    p = ctx.p
    return [
        dim.run_dim(p, "C09.1", GEOM_MODULES, floor=40, exceptions=C09_DIM_EXCEPTIONS, description="no cols/rows confusion in the geometry entry points of containers and decorations", only_functions={"render", *CMP, "get_rows_sizes", "get_column_sizes", "get_item_rows", "column_widths", "filler_values", "padding_values", "calculate_padding_filler", "top_w_size", "frame_top_bottom"}),
        rule_size_agreement(ctx),
        rule_offsets(ctx),
        rule_none_guard(ctx),
        rule_display_refresh(ctx),
        noop.run_noop(p, "C09.6", GEOM_MODULES, floor=30),
        posbound.run_posbound(p, "C09.7", GEOM_MODULES, floor=6),
        _empty_guard(ctx),
        accum.run_accum(p, "C09.9", "C09", floor=3),
        rule_edit_row_range(ctx),
        rule_visible_order(ctx),
        rule_two_sided(ctx),
        fresh.run_fresh(p, "C09.18", ["urwid.canvas"], floor=30),
        canv.run_hidden_dep(p, "C09.19", floor=6),
        alias.run_inplace_own(p, "C09.15", ["urwid.canvas"], floor=6, exempt={"shards": "shared on purpose, copy-on-write decided by FRESHLIST (C06.2c)"}),
        optcall.run_optcall(p, "C09.11", ("urwid.widget",), floor=35),
        rule_hidden_columns(ctx),
        rule_scrollbar_side(ctx),
        rule_hit_test_every_branch(ctx),
        rule_line_pos_inside_segment(ctx),
        rule_overlay_cursor_clipped(ctx),
    ]


_FIL = "urwid/widget/filler.py"
_PAD = "urwid/widget/padding.py"
_OVL = "urwid/widget/overlay.py"
_FRM = "urwid/widget/frame.py"
_PIL = "urwid/widget/pile.py"
_COL = "urwid/widget/columns.py"
_BOX = "urwid/widget/box_adapter.py"
MUTANTS = [
    Mut("twin-overlay-cursor-clip-spelled-out", "urwid/widget/overlay.py", "Overlay.get_cursor_coords", "        if not (0 <= x < maxcol and 0 <= y < maxrow):", "        if x < 0 or x >= maxcol or y < 0 or y >= maxrow:", twin=True),
    Mut("overlay-cursor-clamped-into-view", "urwid/widget/overlay.py", "Overlay.get_cursor_coords", "        x, y = coords[0] + left, coords[1] + top\n        if not (0 <= x < maxcol and 0 <= y < maxrow):\n            # the part of the top widget that holds the cursor is clipped away: the rendering shows no cursor\n            return None\n        return x, y\n", "        x, y = coords\n        if y >= maxrow:\n            y = maxrow - 1\n        return x + left, y + top\n", "POSBOUND|widget.overlay.Overlay.get_cursor_coords|overlay cursor reported without clipping test"),
    Mut("icon-cursor-right-edge-only", "urwid/widget/wimp.py", "SelectableIcon.get_cursor_coords", "        if not 0 <= x < maxcol:", "        if maxcol <= x:", "POSBOUND|widget.wimp.SelectableIcon.get_cursor_coords|column x checked on one side only"),
    Mut("twin-icon-cursor-two-tests", "urwid/widget/wimp.py", "SelectableIcon.get_cursor_coords", "        if not 0 <= x < maxcol:", "        if x < 0 or maxcol <= x:", twin=True),
    Mut("listbox-mouse-fill-above-not-reversed", "urwid/widget/listbox.py", "ListBox.mouse_event", "        fill_above.reverse()  # fill_above is in bottom-up order\n", "", "SIB|widget.listbox.ListBox.mouse_event|fill_above used in screen order without reverse()"),
    Mut("listbox-render-fill-above-not-reversed", "urwid/widget/listbox.py", "ListBox.render", "        fill_above.reverse()  # fill_above is in bottom-up order\n", "", "SIB|widget.listbox.ListBox.render|fill_above used in screen order without reverse()", error_ok=True),
    Mut("frame-keypress-own-body-height", "urwid/widget/frame.py", "Frame.keypress", "        (htrim, ftrim), _orig = self.frame_top_bottom((maxcol, maxrow), True)\n        remaining = maxrow - htrim - ftrim\n", "        remaining = maxrow\n        if self.header is not None:\n            remaining -= self.header.rows((maxcol,))\n        if self.footer is not None:\n            remaining -= self.footer.rows((maxcol,))\n", "GEOM|widget.frame.Frame.keypress"),
    Mut("frame-keypress-forgets-footer", "urwid/widget/frame.py", "Frame.keypress", "        remaining = maxrow - htrim - ftrim\n", "        remaining = maxrow - htrim\n", "GEOM|widget.frame.Frame.keypress"),
    Mut("padding-fixed-click-not-hit-tested", _PAD, "Padding.mouse_event", "            if col < left or col >= left + width:\n                return False\n", "", "GUARD|widget.padding.Padding.mouse_event"),
    Mut("columns-click-left-edge-by-index", "urwid/widget/columns.py", "Columns.mouse_event", "            if col < x:\n                return False", "            x = sum(widths[:i]) + i * self.dividechars\n            if col < x:\n                return False", "SIB|widget.columns.Columns.mouse_event|mouse_event: dividers counted per index"),
    Mut("columns-pref-col-by-index", "urwid/widget/columns.py", "Columns.get_pref_col", "            col = cwidth // 2\n            col += sum(self.dividechars + wc for wc in widths[: self.focus_position] if wc > 0)", "            col = cwidth // 2\n            col += self.focus_position * self.dividechars\n            col += sum(widths[: self.focus_position])", "SIB|widget.columns.Columns.get_pref_col"),
    Mut("scrollbar-left-click-unshifted", "urwid/widget/scrollable.py", "ScrollBar.mouse_event", "        if self._scrollbar_side == SCROLLBAR_LEFT:\n            # the wrapped widget is drawn to the right of the bar\n            col -= size[0] - ow_size[0]\n", "", "SIB|widget.scrollable.ScrollBar.mouse_event"),
    Mut("twin-scrollbar-left-click-shift-spelled-out", "urwid/widget/scrollable.py", "ScrollBar.mouse_event", "            col -= size[0] - ow_size[0]\n", "            bar = size[0] - ow_size[0]\n            col = col - bar\n", twin=True),
    Mut("columns-click-counts-hidden-divider", "urwid/widget/columns.py", "Columns.mouse_event", "            if width <= 0:\n                # hidden column: not drawn, takes no divider (see render)\n                continue\n            if col < x:", "            if col < x:", "SIB|widget.columns.Columns.mouse_event"),
    Mut("columns-move-counts-hidden-divider", "urwid/widget/columns.py", "Columns.move_cursor_to_coords", "            if width <= 0:\n                # hidden column: not drawn, takes no divider (see render)\n                continue\n            end = x + width", "            end = x + width", "SIB|widget.columns.Columns.move_cursor_to_coords"),
    Mut("edit-accepts-caption-rows", "urwid/widget/edit.py", "Edit.move_cursor_to_coords", "        _top_x, top_y = self.position_coords(maxcol, 0)\n        if y < top_y or y >= len(trans):", "        if not 0 <= y < len(trans):", "KIND|widget.edit.Edit.move_cursor_to_coords"),
    Mut("popup-cursor-forwarded-blindly", "urwid/widget/popup.py", "PopUpTarget.get_cursor_coords", "        if not hasattr(self._current_widget, \"get_cursor_coords\"):\n            return None\n", "", "OPTCALL|widget.popup.PopUpTarget.get_cursor_coords"),
    Mut("popup-move-forwarded-blindly", "urwid/widget/popup.py", "PopUpTarget.move_cursor_to_coords", "        if not hasattr(self._current_widget, \"move_cursor_to_coords\"):\n            return True\n", "", "OPTCALL|widget.popup.PopUpTarget.move_cursor_to_coords"),
    Mut("pile-move-unguarded", "urwid/widget/pile.py", "Pile.keypress", "            if not hasattr(self.focus, \"move_cursor_to_coords\"):\n                return None\n", "", "OPTCALL|widget.pile.Pile.keypress"),
    Mut("edit-first-row-from-caption-newlines", "urwid/widget/edit.py", "Edit.move_cursor_to_coords", "_top_x, top_y = self.position_coords(maxcol, 0)", "top_y = self.caption.count(\"\\n\")", "KIND|widget.edit.Edit.move_cursor_to_coords"),
    Mut("filler-move-row-vs-cols", _FIL, "Filler.move_cursor_to_coords", "row >= maxrow - bottom", "row >= maxcol - bottom", "DIM|widget.filler.Filler.move_cursor_to_coords"),
    Mut("filler-mouse-size-drops-bottom", _FIL, "Filler.mouse_event", "return self._original_widget.mouse_event((maxcol, maxrow - top - bottom), event", "return self._original_widget.mouse_event((maxcol, maxrow - top), event", "GEOM|widget.filler.Filler.mouse_event"),
    Mut("filler-cursor-offset-bottom", _FIL, "Filler.get_cursor_coords", "return x, y + top", "return x, y + bottom", "PAIR|widget.filler.Filler.get_cursor_coords"),
    Mut("filler-pack-branch-lost", _FIL, "Filler.get_pref_col", "if self.height_type == WHSettings.PACK:\n            x = self._original_widget.get_pref_col((maxcol,))\n        else:", "if False:\n            x = self._original_widget.get_pref_col((maxcol,))\n        else:", "GEOM|widget.filler.Filler.get_pref_col"),
    Mut("padding-mouse-offset-right", _PAD, "Padding.mouse_event", "button, col - left, row, focus)", "button, col - right, row, focus)", "PAIR|widget.padding.Padding"),
    Mut("padding-keypress-fixed-size", _PAD, "Padding.keypress", "return self._original_widget.keypress((self._width_amount,), key)", "return self._original_widget.keypress((), key)", "GEOM|widget.padding.Padding.keypress"),
    Mut("padding-cursor-size-drops-right", _PAD, "Padding.get_cursor_coords", "maxvals = (size[0] - left - right,) + size[1:]", "maxvals = (size[0] - left,) + size[1:]", "GEOM|widget.padding.Padding.get_cursor_coords"),
    Mut("overlay-cursor-box-size", _OVL, "Overlay.get_cursor_coords", "self.top_w.get_cursor_coords(self.top_w_size(real_size, left, right, top, bottom))", "self.top_w.get_cursor_coords((maxcol - left - right, maxrow - top - bottom))", "GEOM|widget.overlay.Overlay.get_cursor_coords"),
    Mut("overlay-cursor-offset-swapped", _OVL, "Overlay.get_cursor_coords", "x, y = coords[0] + left, coords[1] + top", "x, y = coords[0] + top, coords[1] + left", ("PAIR|widget.overlay.Overlay", "DIM|widget.overlay.Overlay")),
    Mut("frame-mouse-body-size", _FRM, "Frame.mouse_event", "return self.body.mouse_event((maxcol, maxrow - htrim - ftrim), event", "return self.body.mouse_event((maxcol, maxrow - htrim), event", "GEOM|widget.frame.Frame.mouse_event"),
    Mut("frame-cursor-footer-offset", _FRM, "Frame.get_cursor_coords", "row_adjust = maxrow - frows", "row_adjust = maxrow - hrows", "PAIR|widget.frame.Frame.get_cursor_coords"),
    Mut("pile-keypress-wrong-index", _PIL, "Pile.keypress", "key = self.focus.keypress(size_args[i], key)", "key = self.focus.keypress(size_args[0], key)", "GEOM|widget.pile.Pile.keypress"),
    Mut("columns-cursor-own-size", _COL, "Columns.get_cursor_coords", "w.get_cursor_coords(size_args[self.focus_position])", "w.get_cursor_coords(size)", "GEOM|widget.columns.Columns.get_cursor_coords"),
    Mut("boxadapter-cursor-size", _BOX, "BoxAdapter.get_cursor_coords", "return self._original_widget.get_cursor_coords((maxcol, self.height))", "return self._original_widget.get_cursor_coords((maxcol,))", "GEOM|widget.box_adapter.BoxAdapter.get_cursor_coords"),
    Mut("padding-cursor-none-unguarded", _PAD, "Padding.get_cursor_coords", "if (coords := self._original_widget.get_cursor_coords(maxvals)) is not None:\n            x, y = coords\n            return x + left, y\n\n        return None", "coords = self._original_widget.get_cursor_coords(maxvals)\n        x, y = coords\n        return x + left, y", "GUARD|widget.padding.Padding.get_cursor_coords"),
    Mut("gridflow-cursor-stale-layout", "urwid/widget/grid_flow.py", "GridFlow.get_cursor_coords", "        self.get_display_widget(size)\n        if not hasattr", "        if not hasattr", "MEMO|widget.grid_flow.GridFlow.get_cursor_coords"),
    Mut("listbox-offset-update-after-reset", "urwid/widget/listbox.py", "ListBox.calculate_visible", "                offset_rows += fill_lines\n                fill_lines = 0", "                fill_lines = 0\n                offset_rows += fill_lines", "NOOP|widget.listbox.ListBox.calculate_visible"),
    Mut("filler-move-closed-bound", _FIL, "Filler.move_cursor_to_coords", "if row < top or row >= maxrow - bottom:", "if row < top or row > maxrow - bottom:", "POSBOUND|widget.filler.Filler.move_cursor_to_coords"),
    Mut("twin-filler-regrouped", _FIL, "Filler.mouse_event", "return self._original_widget.mouse_event((maxcol, maxrow - top - bottom), event", "return self._original_widget.mouse_event((maxcol, maxrow - (top + bottom)), event", twin=True),
    Mut("twin-filler-local-height", _FIL, "Filler.keypress", "return self._original_widget.keypress((maxcol, maxrow - top - bottom), key)", "inner_rows = maxrow - bottom - top\n        return self._original_widget.keypress((maxcol, inner_rows), key)", twin=True),
    Mut("twin-frame-cursor-order", _FRM, "Frame.get_cursor_coords", "coords = self.body.get_cursor_coords((maxcol, maxrow - hrows - frows))", "coords = self.body.get_cursor_coords((maxcol, maxrow - frows - hrows))", twin=True),
    Mut("twin-overlay-mouse-locals", _OVL, "Overlay.mouse_event", "            col - left,\n            row - top,", "            -left + col,\n            -top + row,", twin=True),
]
