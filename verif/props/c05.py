"""C05 - terminal input decodes to the same events however it is fragmented."""

from __future__ import annotations

import ast

from ..core import Ctx, RuleResult, finding, short, walk_no_nested
from ..model import AnalysisError, norm
from ..rules import exc, fwd
from ..rules.util import callee_name, calls_in, cfg_of, dotted, linear, node_exprs, nodes_where, single_defs
from ..tables import C05_INFEASIBLE

EXPLANATION = (
    "Decided (necessary structural conditions of C05): (1) EXC: no modelled exception other than MoreInputRequired can escape process_keyqueue "
    "(through the trie readers and within_double_byte, incl. its bytes-only argument contract), none can escape Screen.parse_input; "
    "(2) PROG: every return of process_keyqueue and of the trie readers yields a (strict) suffix of its input, so decoding consumes left to right and `while codes:` terminates; "
    "(3) every input-too-short test raises MoreInputRequired under more_available before any fallback return - the structural core of fragmentation invariance; "
    "(4) carry-over: the MoreInputRequired handler stores the unconsumed codes, the next read prepends and clears them on every path, the timeout closure clears them and "
    "re-parses the same codes with wait_for_more=False, a pending timeout is cancelled before every new parse and armed when an event loop is present; "
    "(5) the special trie values are exactly the ones get_recurse dispatches on and the key table is prefix-free."
    " Added after seed round 3: (7) FLAG-FWD - every decoder that takes `more_available` receives its caller's own flag (the nested ESC-prefixed decode included); (8) the byte ranges of within_double_byte as integer intervals (C11.8)."
    ' Round 4: (9) string methods are applied to an event of the nested ESC decode only after an isinstance test excluded every tuple event (mouse 4-tuples and cursor-position 3-tuples).'
    ' Round-4 triage: (10) a caller of parse_input without an event loop (the synchronous get_input) decodes a held partial sequence itself: every path from its first synchronous parse passes a test of _partial_codes whose true branch parses with wait_for_more=False. Round 5: (11) the SGR mouse decoder finds the first `M` or `m` with one joint test; (12) every os.read() drain loop leaves on an empty read (end of file); (10) now also accepts a wait_for_more argument that can be False (the refined fix 190a3c8 waits while new bytes keep arriving).'
    ' Round 6: (10) after every parse_input call of the synchronous get_input that may leave bytes pending, _partial_codes is tested again before the function returns (the completion step is a loop).'
    ' (13) TAINT: text from the terminal reaches int() in escape.py only after an isascii() and isdigit() test of every field (fix 62201b6).'
    ' Round 7: (14) SIB: event-name words the decoder can put behind modifier words (mouse, meta) are looked for by containment; (15) the coordinates of an X10 mouse report are taken modulo 256.'
    ' (16) PAIR: hook_event_loop() re-arms the completion timeout for bytes still pending after unhook_event_loop() removed the alarm; (17) FLOW: what woke the complete_wait wait (terminal or resize pipe) takes part in the wait_for_more flag of the parse after it (fix 4d24c54).'
    ' Round 8: (17) tightened: the wake-up list may only be compared with the resize descriptor, never used as a truth value (end of file keeps the terminal readable); (18) TAB: in the folded key table modifier words occur once each in the order shift meta ctrl, and the xterm modifier digit d names the bits of d - 1.'
    ' Round-8 triage: (19) SENTINEL: an attribute holding an event-loop alarm handle is compared with None by identity (fix 2843810).'
)
NOT_DECIDED = (
    "That event names/coordinates are the documented ones for every sequence; equality of event lists under all cuts for value-dependent recognisers "
    "(UTF-8 reassembly); IndexError/AttributeError-class failures are outside the exception model; the synchronous get_input() path has no completion timer by design."
)
ASSUMPTIONS = ["The exception model covers explicit raises and the builtins listed in rules/exc.py only."]

READERS = ["get", "get_recurse", "read_mouse_info", "read_sgrmouse_info", "read_cursor_position"]


def _is_suffix_slice(e, of: str, strict: bool, env) -> bool:
    """e is `of[k:]` (no upper bound, no step); strict => k is provably >= 1 (positive constant term, no negative terms)."""
    if not (isinstance(e, ast.Subscript) and isinstance(e.value, ast.Name) and e.value.id == of and isinstance(e.slice, ast.Slice)):
        return False
    s = e.slice
    if s.upper is not None or s.step is not None or s.lower is None:
        return False
    if not strict:
        return True
    lin = linear(s.lower, {})
    if lin is None:
        return False
    return lin.get("", 0) >= 1 and all(v > 0 for k, v in lin.items())


def rule_consumption(ctx: Ctx) -> RuleResult:
    p = ctx.p
    rr = RuleResult("PROG", "C05.2", "every return of process_keyqueue / the trie readers yields a (strict) suffix of the input", floor=17 + 12)
    pk = p.func("urwid.display.escape.process_keyqueue")
    trie = p.cls("urwid.display.escape.KeyqueueTrie")
    suffix_funcs = {"process_keyqueue": "codes"}
    for r in READERS:
        if r not in trie.methods:
            raise AnalysisError(f"KeyqueueTrie.{r} not found (anchor vanished)")
        suffix_funcs[r] = "keys"

    def input_arg(call):
        """the argument of a suffix-returning call that is the callee's input sequence"""
        nm = callee_name(call)
        pname = suffix_funcs[nm]
        callee = pk if nm == "process_keyqueue" else trie.methods[nm]
        ps = callee.params
        idx = ps.index(pname) - (1 if callee.cls is not None else 0)
        for k in call.keywords:
            if k.arg == pname:
                return k.value
        return call.args[idx] if idx < len(call.args) else None

    def rest_names(fi, param, strict_arg):
        """local names bound (by unpacking / walrus) to the rest-part of a suffix-returning call given a suffix of param"""
        out = {}
        for n in fi.own_nodes():
            val = tg = None
            if isinstance(n, ast.Assign) and len(n.targets) == 1:
                tg, val = n.targets[0], n.value
            elif isinstance(n, ast.NamedExpr):
                tg, val = n.target, n.value
            if val is None:
                continue
            src = val
            # result, remaining = result   (re-unpack of a name holding a reader result)
            if isinstance(src, ast.Name) and src.id in out.get("__whole__", {}):
                src = out["__whole__"][src.id]
            if isinstance(src, ast.Call) and callee_name(src) in suffix_funcs and input_arg(src) is not None:
                a0 = input_arg(src)
                ok = _is_suffix_slice(a0, param, strict_arg, {}) or (isinstance(a0, ast.Name) and a0.id == param and not strict_arg)
                if not ok:
                    continue
                if isinstance(tg, ast.Tuple) and len(tg.elts) == 2 and isinstance(tg.elts[1], ast.Name):
                    out[tg.elts[1].id] = src
                elif isinstance(tg, ast.Name):
                    out.setdefault("__whole__", {})[tg.id] = src
        return out

    # process_keyqueue: strict
    rests = rest_names(pk, "codes", True)
    for n in pk.own_nodes():
        if not isinstance(n, ast.Return):
            continue
        ident = f"process_keyqueue:{norm(n, 90)}"
        v = n.value
        ok = False
        if isinstance(v, ast.Tuple) and len(v.elts) == 2:
            r = v.elts[1]
            ok = _is_suffix_slice(r, "codes", True, {}) or (isinstance(r, ast.Name) and r.id in rests)
        rr.inst(ident, True, {"function": "process_keyqueue", "return": norm(n, 90), "strict_suffix": ok} if len(rr.samples) < 3 else None)
        if not ok:
            rr.add(finding("PROG", pk, n, "this return does not hand back a strict suffix of `codes`: input would not be consumed left to right (or `while codes:` would not terminate)", construct=norm(n, 120)))
    # readers: suffix of keys (or result of another reader given a suffix), or None
    for rname in READERS:
        fi = trie.methods[rname]
        rests = rest_names(fi, "keys", False)
        for n in fi.own_nodes():
            if not isinstance(n, ast.Return):
                continue
            v = n.value
            ident = f"{rname}:{norm(n, 90)}"
            ok = False
            if v is None or (isinstance(v, ast.Constant) and v.value is None):
                ok = True
            elif isinstance(v, ast.Tuple) and len(v.elts) == 2:
                r = v.elts[1]
                ok = _is_suffix_slice(r, "keys", False, {}) or (isinstance(r, ast.Name) and (r.id == "keys" or r.id in rests))
            elif isinstance(v, ast.Call) and callee_name(v) in suffix_funcs and input_arg(v) is not None:
                a0 = input_arg(v)
                ok = _is_suffix_slice(a0, "keys", False, {}) or (isinstance(a0, ast.Name) and a0.id == "keys")
            elif isinstance(v, ast.Name) and v.id in rests.get("__whole__", {}):
                ok = True
            rr.inst(ident, True)
            if not ok:
                rr.add(finding("PROG", fi, n, "this reader return is neither None nor (event, suffix of `keys`) nor the result of another reader on a suffix of `keys`", construct=norm(n, 120)))
    return rr


def _is_shortness_test(t, param_names: set, flags: set) -> bool:
    """Does test expression *t* only ask whether the input (or a tail of it) is too short?"""

    def is_input(e):
        if isinstance(e, ast.Name):
            return e.id in param_names
        if isinstance(e, ast.Subscript) and isinstance(e.slice, ast.Slice):
            return is_input(e.value)
        return False

    if isinstance(t, ast.UnaryOp) and isinstance(t.op, ast.Not):
        if is_input(t.operand):
            return True
        if isinstance(t.operand, ast.Name) and t.operand.id in flags:
            return True
        return False
    if isinstance(t, ast.Compare) and len(t.ops) == 1 and isinstance(t.ops[0], (ast.Lt, ast.LtE)):
        left = t.left
        if isinstance(left, ast.Call) and isinstance(left.func, ast.Name) and left.func.id == "len" and left.args and is_input(left.args[0]):
            return True
    if isinstance(t, ast.BoolOp) and isinstance(t.op, ast.And):
        return any(_is_shortness_test(v, param_names, flags) for v in t.values)
    return False


def rule_insufficiency(ctx: Ctx) -> RuleResult:
    p = ctx.p
    rr = RuleResult("PAIR", "C05.3", "every input-too-short test raises MoreInputRequired under more_available before any fallback return", floor=9)
    trie = p.cls("urwid.display.escape.KeyqueueTrie")
    fis = [(p.func("urwid.display.escape.process_keyqueue"), {"codes"})] + [(trie.methods[r], {"keys"}) for r in READERS if r in trie.methods]
    for fi, params in fis:
        cfg = cfg_of(fi)
        # scanning flags: names only ever assigned boolean constants
        flags = set()
        assigned: dict[str, list] = {}
        for n in fi.own_nodes():
            if isinstance(n, ast.Assign):
                for t in n.targets:
                    if isinstance(t, ast.Name):
                        assigned.setdefault(t.id, []).append(n.value)
        for k, vs in assigned.items():
            if vs and all(isinstance(v, ast.Constant) and isinstance(v.value, bool) for v in vs):
                flags.add(k)

        def is_guard(n):
            if n.kind != "test":
                return False
            if not any(isinstance(x, ast.Name) and x.id == "more_available" for x in ast.walk(n.ast)):
                return False
            return any(lab == "T" and t.kind == "raisestmt" and "MoreInputRequired" in ast.unparse(t.ast) for t, lab in n.succ)

        guards = [n for n in cfg.nodes if is_guard(n)]
        for n in cfg.nodes:
            if n.kind != "test" or not _is_shortness_test(n.ast, params, flags):
                continue
            ident = f"{short(fi)}:{norm(n.stmt, 80)}"
            if n in guards:
                rr.inst(ident, True, {"function": short(fi), "test": norm(n.stmt, 80), "raises_directly": True} if len(rr.samples) < 4 else None)
                continue
            # `if short and more_available: raise` followed by `if short: return ...`: the guard already saw the
            # same condition, so reaching this test with the condition true means more_available is false
            cond_txt = ast.unparse(n.ast)
            pre = [g for g in guards if isinstance(g.ast, ast.BoolOp) and isinstance(g.ast.op, ast.And) and any(ast.unparse(v) == cond_txt for v in g.ast.values) and cfg.dominated(n, [g])]
            if pre:
                rr.inst(ident, True)
                continue
            r = cfg.reachable_from_edges([(n, "T")], avoid=guards)
            bad = [x for x in r if x.kind == "return"] + ([cfg.exit] if cfg.exit in r and not any(x.kind == "return" for x in r) else [])
            rr.inst(ident, True, {"function": short(fi), "test": norm(n.stmt, 80), "guarded": not bad} if len(rr.samples) < 4 else None)
            if bad:
                rr.add(
                    finding(
                        "PAIR",
                        fi,
                        n.stmt,
                        f"when `{norm(n.ast, 60)}` finds the input too short, {fi.name}() can reach `{norm(bad[0].stmt, 60) if bad[0].stmt is not None else 'the end'}` without "
                        "`if more_available: raise MoreInputRequired()`: a read boundary at this point would decode differently from the whole stream",
                        construct=f"short-input test `{norm(n.ast, 80)}` without MoreInputRequired",
                    )
                )
    return rr


def rule_scan_exhaustion(ctx: Ctx) -> RuleResult:
    """A reader that scans the input with `for k in keys[...]` and runs off its end has seen a
    *prefix* of a report: it must ask for more input (under more_available) before giving up."""
    p = ctx.p
    rr = RuleResult("PAIR", "C05.3b", "when a reader's scanning loop exhausts the input, every path to a return passes `if ... more_available: raise MoreInputRequired()`", floor=3)
    trie = p.cls("urwid.display.escape.KeyqueueTrie")
    for r in READERS:
        fi = trie.methods.get(r)
        if fi is None:
            continue
        cfg = cfg_of(fi)
        inp = fi.params[1] if len(fi.params) > 1 else "keys"

        def is_guard(n):
            if n.kind != "test" or not any(isinstance(x, ast.Name) and x.id == "more_available" for x in ast.walk(n.ast)):
                return False
            return any(lab == "T" and t.kind == "raisestmt" and "MoreInputRequired" in ast.unparse(t.ast) for t, lab in n.succ)

        guards = [n for n in cfg.nodes if is_guard(n)]
        for h in cfg.nodes:
            if h.kind != "for":
                continue
            it = h.ast.iter
            base = it.value if isinstance(it, ast.Subscript) else it
            if not (isinstance(base, ast.Name) and base.id == inp):
                continue
            ident = f"{short(fi)}:{norm(h.stmt, 60)}"
            # boolean flags assigned inside the loop only right before leaving it (the head is not reachable
            # from the assignment) still hold their value from before the loop when the loop is exhausted
            env = {}
            body = cfg.reachable_from_edges([(h, "T")], avoid=[h])
            for n in cfg.nodes:
                a = n.ast
                if isinstance(a, ast.Assign) and len(a.targets) == 1 and isinstance(a.targets[0], ast.Name) and isinstance(a.value, ast.Constant) and isinstance(a.value.value, bool):
                    nm = a.targets[0].id
                    if n in body:
                        if h in cfg.reachable([n]):
                            env[nm] = None  # may have run in an earlier iteration
                    elif h in cfg.reachable([n]) and env.get(nm, 0) is not None:
                        env[nm] = a.value.value if nm not in env else (env[nm] if env[nm] == a.value.value else None)
            env = {k: v for k, v in env.items() if v is not None}

            # `for k in keys[i:]` with `i += 1` in the body: on exhaustion i == len(keys), so `not keys[i:]` holds
            counters = set()
            if isinstance(it, ast.Subscript) and isinstance(it.slice, ast.Slice) and isinstance(it.slice.lower, ast.Name) and it.slice.upper is None:
                c = it.slice.lower.id
                if any(isinstance(n.ast, ast.AugAssign) and isinstance(n.ast.target, ast.Name) and n.ast.target.id == c and isinstance(n.ast.op, ast.Add) and isinstance(n.ast.value, ast.Constant) and n.ast.value.value == 1 for n in body):
                    counters.add(c)

            def rest_empty(t):
                """`not keys[c:]` for an exhausted counter c"""
                if isinstance(t, ast.UnaryOp) and isinstance(t.op, ast.Not):
                    o = t.operand
                    return isinstance(o, ast.Subscript) and isinstance(o.value, ast.Name) and o.value.id == inp and isinstance(o.slice, ast.Slice) and isinstance(o.slice.lower, ast.Name) and o.slice.lower.id in counters and o.slice.upper is None
                return False

            def decided(n):
                t = n.ast
                if rest_empty(t):
                    return True
                if isinstance(t, ast.BoolOp) and isinstance(t.op, ast.And) and any(rest_empty(v) for v in t.values) and len(t.values) == 2:
                    return None
                if isinstance(t, ast.Name) and t.id in env:
                    return env[t.id]
                if isinstance(t, ast.UnaryOp) and isinstance(t.op, ast.Not) and isinstance(t.operand, ast.Name) and t.operand.id in env:
                    return not env[t.operand.id]
                return None

            reach = set()
            work = [t for t, lab in h.succ if lab == "F" and t not in guards]
            reach.update(work)
            while work:
                n = work.pop()
                if isinstance(n.ast, ast.Assign) and any(isinstance(t, ast.Name) and t.id in env for t in n.ast.targets):
                    env.pop(n.ast.targets[0].id, None)
                if isinstance(n.ast, (ast.Assign, ast.AugAssign)) and any(isinstance(x, ast.Name) and isinstance(x.ctx, ast.Store) and x.id in counters for x in ast.walk(n.ast)):
                    counters.clear()
                d = decided(n) if n.kind == "test" else None
                for t, lab in n.succ:
                    if d is not None and lab in ("T", "F") and (lab == "T") != d:
                        continue
                    if t in guards or t in reach:
                        continue
                    reach.add(t)
                    work.append(t)
            bad = [x for x in reach if x.kind == "return"] + ([cfg.exit] if cfg.exit in reach and not any(x.kind == "return" for x in reach) else [])
            rr.inst(ident, True, {"function": short(fi), "loop": norm(h.stmt, 60), "guards": len(guards), "guarded": not bad} if len(rr.samples) < 5 else None)
            if bad:
                rr.add(
                    finding(
                        "PAIR", fi, h.stmt,
                        f"when `{norm(h.stmt, 50)}` runs off the end of the input, {fi.name}() reaches `{norm(bad[0].stmt, 50) if bad[0].stmt is not None else 'the end'}` without "
                        "`if more_available: raise MoreInputRequired()`: a report cut at this point is decoded as garbage instead of being held back for the rest",
                        construct=f"scan loop `{norm(h.stmt, 60)}` exhausts without MoreInputRequired",
                    )
                )
    return rr


def rule_carry_over(ctx: Ctx) -> RuleResult:
    p = ctx.p
    rr = RuleResult("ORDER", "C05.4", "incomplete input is carried to the next read, flushed by the timeout closure, and a pending timeout is cancelled before every parse", floor=7)
    scr = p.cls("urwid.display._raw_display_base.Screen")
    pi = scr.methods.get("parse_input")
    ga = scr.methods.get("get_available_raw_input")
    if pi is None or ga is None:
        raise AnalysisError("Screen.parse_input / get_available_raw_input not found")
    # the last definition (after the overloads) is the implementation
    sn = pi.self_name
    cfg = cfg_of(pi)

    def is_self_store(s, attr):
        return isinstance(s, ast.Attribute) and isinstance(s.ctx, ast.Store) and s.attr == attr and isinstance(s.value, ast.Name) and s.value.id == sn

    pk_calls = [c for c in calls_in(pi, "process_keyqueue")]
    if not pk_calls:
        raise AnalysisError("parse_input no longer calls process_keyqueue")
    pk_nodes = [n for c in pk_calls for n in nodes_where(cfg, lambda s, c=c: s is c)]
    # the loop variable reassigned from process_keyqueue's rest
    rest_var = None
    for n in pi.own_nodes():
        if isinstance(n, ast.Assign) and n.value in pk_calls and isinstance(n.targets[0], ast.Tuple) and len(n.targets[0].elts) == 2 and isinstance(n.targets[0].elts[1], ast.Name):
            rest_var = n.targets[0].elts[1].id
    if rest_var is None:
        raise AnalysisError("parse_input: `run, codes = process_keyqueue(codes, ...)` not found")
    # (a) handler stores the unconsumed codes
    handlers = [n for n in cfg.nodes if n.kind == "handler" and n.ast.type is not None and "MoreInputRequired" in ast.unparse(n.ast.type)]
    rr.inst("handler stores unconsumed codes", True, {"handlers": len(handlers), "rest_variable": rest_var})
    if not handlers:
        rr.add(finding("ORDER", pi, pi.node, "parse_input has no `except MoreInputRequired` handler: an incomplete sequence would propagate as an exception", construct="no MoreInputRequired handler"))
    stores = nodes_where(cfg, lambda s: isinstance(s, ast.Assign) and any(is_self_store(t, "_partial_codes") for t in s.targets) and isinstance(s.value, ast.Name) and s.value.id == rest_var)
    for h in handlers:
        if not stores or not cfg.must_pass(h, stores, ends=[cfg.exit]):
            rr.add(finding("ORDER", pi, h.ast, f"the MoreInputRequired handler can finish without storing the unconsumed `{rest_var}` in self._partial_codes: the pending bytes would be lost", construct="handler does not store partial codes"))
    # (e) alarm armed when an event loop exists
    rr.inst("handler arms completion alarm", True)
    arms = nodes_where(cfg, lambda s: isinstance(s, ast.Assign) and any(is_self_store(t, "_input_timeout") for t in s.targets) and isinstance(s.value, ast.Call) and callee_name(s.value) == "alarm")
    closure = p.local_def(pi, "_parse_incomplete_input")
    for h in handlers:
        ev_tests = [n for n in cfg.reachable([h]) if n.kind == "test" and isinstance(n.ast, ast.Name) and n.ast.id == "event_loop"]
        if not arms or not ev_tests:
            rr.add(finding("ORDER", pi, h.ast, "the MoreInputRequired handler never arms a completion alarm (`self._input_timeout = event_loop.alarm(...)` under `if event_loop:`)", construct="completion alarm missing"))
            continue
        for t in ev_tests:
            r = cfg.reachable_from_edges([(t, "T")], avoid=arms)
            if cfg.exit in r:
                rr.add(finding("ORDER", pi, t.stmt, "with an event loop present the handler can finish without arming the completion alarm", construct="alarm not armed on all paths"))
        for a in arms:
            call = a.ast.value
            cb = call.args[1] if len(call.args) > 1 else None
            if not (isinstance(cb, ast.Name) and closure is not None and cb.id == closure.name):
                rr.add(finding("ORDER", pi, a.ast, "the completion alarm does not call the closure that re-parses the pending codes", construct="alarm callback"))
    # (c) the closure
    rr.inst("timeout closure flushes pending codes", True)
    if closure is None:
        rr.add(finding("ORDER", pi, pi.node, "closure _parse_incomplete_input not found", construct="no timeout closure"))
    else:
        ccfg = cfg_of(closure)
        clr = nodes_where(ccfg, lambda s: isinstance(s, ast.Assign) and any(is_self_store(t, "_partial_codes") for t in s.targets) and isinstance(s.value, (ast.List, ast.Tuple)) and not s.value.elts)
        rep = [c for c in calls_in(closure, "parse_input")]
        good = False
        for c in rep:
            kw = {k.arg: k.value for k in c.keywords}
            wfm = kw.get("wait_for_more", c.args[3] if len(c.args) > 3 else None)
            codes_arg = c.args[2] if len(c.args) > 2 else kw.get("codes")
            if isinstance(wfm, ast.Constant) and wfm.value is False and isinstance(codes_arg, ast.Name) and codes_arg.id == rest_var:
                good = True
        if not good:
            rr.add(finding("ORDER", closure, closure.node, f"the timeout closure does not re-parse `{rest_var}` with wait_for_more=False: pending bytes would be lost or wait forever", construct="closure re-parse"))
        if not clr or not ccfg.must_pass(ccfg.entry, clr, ends=[ccfg.exit]):
            rr.add(finding("ORDER", closure, closure.node, "the timeout closure does not clear self._partial_codes on every path: the flushed bytes would be decoded again with the next read", construct="closure does not clear partial codes"))
        rep_n = [n for c in rep for n in nodes_where(ccfg, lambda s, c=c: s is c)]
        if clr and rep_n and not all(ccfg.dominated(r_, clr) for r_ in rep_n):
            rr.add(finding("ORDER", closure, closure.node, "the timeout closure re-parses before clearing self._partial_codes", construct="closure order"))
    # (d) pending timeout cancelled before each parse
    rr.inst("pending timeout cancelled before parsing", True)
    rem = [c for c in calls_in(pi, "remove_alarm") if c.args and isinstance(c.args[0], ast.Attribute) and c.args[0].attr == "_input_timeout"]
    rem_n = [n for c in rem for n in nodes_where(cfg, lambda s, c=c: s is c)]
    guards = [n for n in cfg.nodes if n.kind == "test" and any(isinstance(x, ast.Attribute) and x.attr == "_input_timeout" for x in ast.walk(n.ast)) and any(lab == "T" and t in rem_n for t, lab in n.succ)]
    ok = bool(guards) and all(cfg.dominated(k, guards) for k in pk_nodes)
    if not ok:
        rr.add(finding("ORDER", pi, pi.node, "process_keyqueue can be reached without the pending completion alarm having been tested and removed (`if self._input_timeout and event_loop: event_loop.remove_alarm(...)`): a stale alarm would later inject the already-consumed bytes", construct="pending alarm not cancelled before parse"))
    # success path clears partial codes
    rr.inst("complete parse clears partial codes", True)
    clear_all = nodes_where(cfg, lambda s: isinstance(s, ast.Assign) and any(is_self_store(t, "_partial_codes") for t in s.targets))
    for k in pk_nodes:
        r = cfg.reachable([k], avoid=clear_all, labels=("n", "T", "F"))
        # from the `while codes` false edge (normal completion) to exit every path stores _partial_codes
    while_tests = [n for n in cfg.nodes if n.kind == "test" and isinstance(n.stmt, ast.While) and isinstance(n.ast, ast.Name) and n.ast.id == rest_var]
    for w in while_tests:
        r = cfg.reachable_from_edges([(w, "F")], avoid=clear_all)
        if cfg.exit in r:
            rr.add(finding("ORDER", pi, w.stmt, "after a complete parse self._partial_codes is not reset on every path", construct="partial codes not reset after complete parse"))
    # (b) get_available_raw_input prepends and clears on every path
    rr.inst("next read prepends and clears pending codes", True)
    gcfg = cfg_of(ga)
    gsn = ga.self_name
    loads = nodes_where(gcfg, lambda s: isinstance(s, ast.Attribute) and isinstance(s.ctx, ast.Load) and s.attr == "_partial_codes" and isinstance(s.value, ast.Name) and s.value.id == gsn)
    clears = nodes_where(gcfg, lambda s: isinstance(s, ast.Assign) and any(isinstance(t, ast.Attribute) and t.attr == "_partial_codes" for t in s.targets))
    if not loads or not gcfg.must_pass(gcfg.entry, loads, ends=[gcfg.exit]):
        rr.add(finding("ORDER", ga, ga.node, "get_available_raw_input can return without reading self._partial_codes: bytes held back from the previous read would not be prepended", construct="partial codes not prepended on all paths"))
    if not clears or not gcfg.must_pass(gcfg.entry, clears, ends=[gcfg.exit]):
        rr.add(finding("ORDER", ga, ga.node, "get_available_raw_input does not clear self._partial_codes on every path", construct="partial codes not cleared"))
    # prepend order: the load of _partial_codes precedes the new input in the same display
    rr.inst("pending codes come before new input", True)
    for n in ga.own_nodes():
        if isinstance(n, (ast.List, ast.Tuple)) and len(n.elts) >= 2:
            txt = [ast.unparse(e) for e in n.elts]
            ip = [i for i, t in enumerate(txt) if "_partial_codes" in t]
            ig = [i for i, t in enumerate(txt) if "_get_input_codes" in t]
            if ip and ig and min(ip) > min(ig):
                rr.add(finding("ORDER", ga, n, "new input is placed before the bytes held back from the previous read", construct="prepend order"))
        if isinstance(n, ast.BinOp) and isinstance(n.op, ast.Add):
            l, r_ = ast.unparse(n.left), ast.unparse(n.right)
            if "_get_input_codes" in l and "_partial_codes" in r_:
                rr.add(finding("ORDER", ga, n, "new input is placed before the bytes held back from the previous read", construct="prepend order"))
    return rr


def rule_trie_table(ctx: Ctx) -> RuleResult:
    from ..consteval import fold_module_name

    p = ctx.p
    rr = RuleResult("TAB", "C05.5", "special trie values match get_recurse's dispatch literals; the folded key table is prefix-free", floor=3)
    m = p.modules["urwid.display.escape"]
    seqs = fold_module_name(p, m, "input_sequences")
    rr.inst("input_sequences folded", True, {"entries": len(seqs), "example": list(map(str, seqs[:3]))})
    specials = sorted({v for _, v in seqs if isinstance(v, str) and v in ("mouse", "sgrmouse")})
    gr = p.func("urwid.display.escape.KeyqueueTrie.get_recurse")
    lits = set()
    for n in gr.own_nodes():
        if isinstance(n, ast.Compare) and isinstance(n.left, ast.Name) and n.left.id == "root":
            for c in n.comparators:
                if isinstance(c, ast.Constant) and isinstance(c.value, str):
                    lits.add(c.value)
    rr.inst("special values dispatched", True, {"table_specials": specials, "dispatch_literals": sorted(lits)})
    readers = {"mouse": "read_mouse_info", "sgrmouse": "read_sgrmouse_info"}
    for s in ("mouse", "sgrmouse"):
        if s not in specials:
            rr.add(finding("TAB", "display.escape.input_sequences", None, f"no input sequence maps to the special value {s!r}: {readers[s]} would be unreachable", construct=f"special {s} missing from table", file=m.relpath))
        if s not in lits:
            rr.add(finding("TAB", gr, gr.node, f"get_recurse no longer dispatches on the special trie value {s!r}", construct=f"special {s} not dispatched"))
    for lit in lits - set(specials):
        rr.add(finding("TAB", gr, gr.node, f"get_recurse dispatches on {lit!r} which no input sequence produces", construct=f"dispatch literal {lit} unused"))
    keys = [k for k, _ in seqs]
    ks = set(keys)
    rr.inst("prefix-free", True)
    for k in keys:
        for i in range(1, len(k)):
            if k[:i] in ks:
                rr.add(finding("TAB", "display.escape.input_sequences", None, f"sequence {k[:i]!r} is a proper prefix of {k!r}: the shorter one shadows or is shadowed depending on fragmentation", construct=f"prefix {k[:i]!r} of {k!r}", file=m.relpath))
                break
    return rr


def rule_event_kind(ctx: Ctx) -> RuleResult:
    """The events process_keyqueue returns are strings (keys) or tuples (mouse events are 4-tuples, cursor position
    reports 3-tuples - both come from the trie readers).  Where it takes an event of a nested decode apart with a
    string method, the path must have excluded *every* tuple (isinstance test): a narrower predicate such as
    is_mouse_event() lets the other tuple kind through and the string method raises AttributeError."""
    from ..rules.exc import ExcEngine

    p = ctx.p
    rr = RuleResult("KIND", "C05.9", "string methods are applied to an event of the nested decode only after an isinstance test excluded every tuple event", floor=1)
    fi = p.func("urwid.display.escape.process_keyqueue")
    cfg = cfg_of(fi)
    # names bound to the result list of a recursive call
    runs = set()
    for n in fi.own_nodes():
        if isinstance(n, ast.Assign) and isinstance(n.value, ast.Call) and callee_name(n.value) == fi.name and isinstance(n.targets[0], ast.Tuple) and isinstance(n.targets[0].elts[0], ast.Name):
            runs.add(n.targets[0].elts[0].id)
    if not runs:
        raise AnalysisError("process_keyqueue: the nested (ESC-prefixed) decode was not found")
    STR_METHODS = {"find", "startswith", "endswith", "split", "lower", "upper", "replace", "index", "strip", "join", "encode"}
    for node in cfg.nodes:
        if node.ast is None or node.kind in ("for", "with", "handler"):
            continue
        for c in walk_no_nested(node.ast):
            if isinstance(c, ast.Call) and isinstance(c.func, ast.Attribute) and c.func.attr in STR_METHODS and isinstance(c.func.value, ast.Subscript) and isinstance(c.func.value.value, ast.Name) and c.func.value.value.id in runs:
                ev = ast.unparse(c.func.value)
                rr.inst(norm(c, 40), True, {"use": norm(c, 50)})
                ok = False
                for t in cfg.nodes:
                    if t.kind != "test":
                        continue
                    txt = ast.unparse(t.ast)
                    if txt == f"isinstance({ev}, tuple)" and node not in ExcEngine._reach_without_edge(cfg, t, "F"):
                        ok = True
                    if txt in (f"isinstance({ev}, str)", f"not isinstance({ev}, tuple)") and node not in ExcEngine._reach_without_edge(cfg, t, "T"):
                        ok = True
                if not ok:
                    rr.add(finding("KIND", fi, c, f"`{norm(c, 50)}` treats `{ev}` as a string, but the nested decode can return a tuple event (mouse event, cursor position report) and no isinstance test on this path excludes all tuples: ESC ESC [ 5 ; 5 R raises AttributeError", construct=f"string method on a possibly-tuple event: {norm(c, 50)}"))
    return rr


def rule_sync_timeout(ctx: Ctx) -> RuleResult:
    """parse_input() keeps an incomplete sequence in _partial_codes and - when it was given an event loop - sets an
    alarm that decodes the held bytes as they stand after complete_wait.  A caller that passes no event loop (the
    synchronous get_input) gets no alarm: it has to play that role itself, i.e. every path from its first
    synchronous parse to its end passes a test of _partial_codes whose true branch parses again with
    wait_for_more=False; otherwise a lone ESC (or any sequence prefix) is held until another key arrives."""
    p = ctx.p
    rr = RuleResult("PASS", "C05.10", "a caller of parse_input without an event loop handles the pending partial sequence itself (test of _partial_codes, then parse with wait_for_more=False)", floor=1)
    cls = p.cls("urwid.display._raw_display_base.Screen")
    for fi in p.all_class_functions(cls):
        calls = [c for c in fi.own_nodes() if isinstance(c, ast.Call) and isinstance(c.func, ast.Attribute) and c.func.attr == "parse_input" and c.args and isinstance(c.args[0], ast.Constant) and c.args[0].value is None]
        if not calls or fi.name == "parse_input":
            continue
        cfg = cfg_of(fi)

        def no_wait(c):
            """the call can decode held bytes as they stand: wait_for_more is False, or an expression that can be False
            (e.g. `len(codes) > pending` - wait only while something new arrived)"""
            v = next((k.value for k in c.keywords if k.arg == "wait_for_more"), c.args[3] if len(c.args) > 3 else None)
            if v is None:
                return False
            return not (isinstance(v, ast.Constant) and v.value is not False)

        sync = [c for c in calls if not no_wait(c)]
        final = [c for c in calls if no_wait(c)]
        tests = [t for t in cfg.nodes if t.kind == "test" and any(isinstance(x, ast.Attribute) and x.attr == "_partial_codes" for x in ast.walk(t.ast))]
        good = []
        for t in tests:
            r = cfg.reachable_from_edges([(t, "T")])
            if any(n in r for c in final for n in nodes_where(cfg, lambda s, c=c: s is c)):
                good.append(t)
        first = min(sync, key=lambda c: c.lineno) if sync else None
        rr.inst(short(fi), True, {"function": short(fi), "synchronous_parses": len(sync), "timeout_handlers": [norm(t.ast, 50) for t in good]})
        if first is None:
            continue
        fn = nodes_where(cfg, lambda s: s is first)
        if not good or not all(cfg.must_pass(n, good, ends=[cfg.exit], labels=("T", "F", "n")) for n in fn):
            rr.add(finding("PASS", fi, first, f"{fi.name}() parses input without an event loop (`{norm(first, 60)}`) and never decodes a held partial sequence: parse_input() can only set its completion alarm on an event loop, so a lone ESC or a sequence prefix stays in _partial_codes until another key arrives - the timeout never 'expires'", construct=f"{fi.name}: no timeout decode of _partial_codes"))
            continue
        # every parse can leave a (new) partial sequence behind - also the one made after waiting, when more but
        # still incomplete input arrived: after *each* parse_input call the function tests _partial_codes again
        # before it returns (the completion step is a loop, not a single retry)
        for c in calls:
            for n in nodes_where(cfg, lambda s, c=c: s is c):
                v = next((k.value for k in c.keywords if k.arg == "wait_for_more"), c.args[3] if len(c.args) > 3 else None)
                if isinstance(v, ast.Constant) and v.value is False:
                    continue  # decodes everything as it stands: nothing can stay pending
                ok = cfg.must_pass(n, tests, ends=[cfg.exit], labels=("T", "F", "n"))
                rr.inst(f"{short(fi)}: re-test after {norm(c, 40)}", True, {"parse": norm(c, 70), "pending_retested_before_return": ok})
                if not ok:
                    rr.add(finding("PASS", fi, c, f"after `{norm(c, 60)}` {fi.name}() can return without testing _partial_codes again: when the bytes that arrived during the wait are still incomplete (ESC | [ | pause | A) they are put back, no further timeout runs - with max_wait None the next call blocks until another key and glues the pending bytes to it", construct=f"{fi.name}: partial sequence not re-tested after a parse"))
    return rr


def rule_first_terminator(ctx: Ctx) -> RuleResult:
    """An SGR mouse report `ESC [ < b ; x ; y` ends at the *first* byte that is `M` (press / drag) or `m` (release).
    Several reports can arrive in one read; a decoder that looks for one terminator first (`find("M")`, falling back
    to `find("m")`) skips over a release that is followed by a press, and the same bytes decode differently when the
    read happens to be cut between the two reports.  The two terminators have to be searched for together: one
    membership test against both, no single-terminator find()/index()/split()/partition()."""
    p = ctx.p
    rr = RuleResult("SIB", "C05.11", "read_sgrmouse_info looks for the first `M` or `m` with one test for both terminators (no search for one of them alone)", floor=1)
    fi = p.func("urwid.display.escape.KeyqueueTrie.read_sgrmouse_info")
    terms = {"M", "m"}

    def term_consts(e):
        out = set()
        for x in ast.walk(e):
            if isinstance(x, ast.Constant) and isinstance(x.value, str) and x.value in terms:
                out.add(x.value)
            elif isinstance(x, ast.Constant) and isinstance(x.value, int) and chr(x.value) in terms if isinstance(x, ast.Constant) and isinstance(x.value, int) and 0 <= x.value < 256 else False:
                out.add(chr(x.value))
        return out

    both = [c for c in fi.own_nodes() if isinstance(c, ast.Compare) and len(c.ops) == 1 and isinstance(c.ops[0], (ast.In, ast.NotIn)) and term_consts(c.comparators[0]) == terms]
    rr.inst("joint terminator test", True, {"tests": [norm(c, 60) for c in both]})
    single = [c for c in fi.own_nodes() if isinstance(c, ast.Call) and isinstance(c.func, ast.Attribute) and c.func.attr in ("find", "index", "rfind", "rindex", "split", "partition", "rpartition") and c.args and len(term_consts(c.args[0])) == 1 and isinstance(c.args[0], ast.Constant)]
    for c in single:
        rr.add(finding("SIB", fi, c, f"`{norm(c, 50)}` searches for one terminator of the SGR mouse report alone: when a release report (`m`) is followed in the same read by a press (`M`) the search skips the `m`, the first report is cut at the wrong place and passed through as garbage - while the same bytes split across two reads decode correctly", construct=f"single-terminator search {norm(c, 50)}"))
    if not both and not single:
        rr.add(finding("SIB", fi, fi.node, "read_sgrmouse_info no longer tests a byte against both terminators (`M`, `m`) at once", construct="no joint terminator test"))
    return rr


def rule_drain_eof(ctx: Ctx) -> RuleResult:
    """'decoding terminates': the raw input is drained with `while ready: os.read(fd, n); ready = select(0)`.  At end of
    file (the terminal went away, a pipe was closed) select() reports the descriptor readable forever and os.read()
    returns b'' - the loop only ends if it looks at what it read.  Every such drain loop leaves on an empty read."""
    p = ctx.p
    rr = RuleResult("PROG", "C05.12", "every loop that drains a descriptor with os.read() leaves when the read returns nothing (end of file)", floor=1)
    for fi in p.functions.values():
        if not fi.module.name.startswith("urwid.display"):
            continue
        for lp in [n for n in fi.own_nodes() if isinstance(n, ast.While)]:
            reads = [c for c in ast.walk(lp) if isinstance(c, ast.Call) and ast.unparse(c.func) == "os.read"]
            if not reads:
                continue
            # the result is bound to a name that an `if not name: break / return` tests, or the loop condition tests it
            names = {t.id for a in ast.walk(lp) if isinstance(a, ast.Assign) and any(r in list(ast.walk(a.value)) for r in reads) for t in a.targets if isinstance(t, ast.Name)}
            ok = False
            for t in ast.walk(lp):
                if isinstance(t, ast.If) and any(isinstance(x, (ast.Break, ast.Return)) for b in t.body for x in ast.walk(b)):
                    tt = t.test
                    if isinstance(tt, ast.UnaryOp) and isinstance(tt.op, ast.Not) and isinstance(tt.operand, ast.Name) and tt.operand.id in names:
                        ok = True
            rr.inst(f"{short(fi)}:{norm(lp.test, 30)}", True, {"function": short(fi), "loop": norm(lp.test, 40), "read_bound_to": sorted(names), "leaves_on_empty_read": ok})
            if not ok:
                rr.add(finding("PROG", fi, lp, f"`while {norm(lp.test, 30)}` drains the descriptor with os.read() and never looks at what it read: at end of file the descriptor stays readable and os.read() returns b'' for ever - get_input() and the event-loop input callback hang when the terminal goes away", construct=f"{fi.name}: drain loop without end-of-file exit"))
    return rr


def rule_digits_only(ctx: Ctx) -> RuleResult:
    """'Bytes that form no known sequence are passed through': the numeric fields of a terminal report are decimal
    ASCII digits and nothing else.  int() accepts much more - a sign, surrounding blanks, `_` separators, non-ASCII
    digits - so text from the terminal reaches int() in the input decoder only after every field was tested with
    str.isdigit() *and* str.isascii() (isdigit alone is also true for superscript digits, on which int() raises).
    Before fix 62201b6 ESC [ < 0 ; 5 ; -3 M was reported as a mouse press at row -4."""
    p = ctx.p
    rr = RuleResult("TAINT", "C05.13", "text from the terminal reaches int() only after an isascii() and isdigit() test of every field", floor=1)
    m = p.modules["urwid.display.escape"]
    for fi in m.functions:
        calls = [c for c in fi.own_nodes() if isinstance(c, ast.Call) and isinstance(c.func, ast.Name) and c.func.id == "int" and c.args and not isinstance(c.args[0], ast.Constant)]
        if not calls:
            continue
        cfg = cfg_of(fi)
        for c in calls:
            cn = next((x for x in cfg.nodes if any(y is c for e in node_exprs(x) for y in ast.walk(e))), None)
            tests = [t for t in cfg.nodes if t.kind == "test" and cn is not None and cfg.dominated(cn, [t]) and any(isinstance(x, ast.Attribute) and x.attr == "isdigit" for x in ast.walk(t.ast)) and any(isinstance(x, ast.Attribute) and x.attr == "isascii" for x in ast.walk(t.ast))]
            # the test must reject: the int() call lies on one side only
            from ..rules.exc import ExcEngine

            ok = any(cn not in ExcEngine._reach_without_edge(cfg, t, "F") or cn not in ExcEngine._reach_without_edge(cfg, t, "T") for t in tests)
            rr.inst(f"{short(fi)}: {norm(c, 40)}", True, {"call": norm(c, 50), "digit_tests": [norm(t.ast, 70) for t in tests], "guarded": ok})
            if not ok:
                rr.add(finding("TAINT", fi, c, f"`{norm(c, 40)}` converts text that came from the terminal without a preceding isascii() and isdigit() test of it: int() also accepts '-3', ' 5', '+3', '1_0' (a report with such a field is taken for a mouse event with a negative or garbled coordinate) and raises ValueError on non-ASCII digits that pass isdigit() alone", construct=f"terminal text to int() without digit test: {norm(c, 40)}"))
    return rr


def rule_x10_coordinates(ctx: Ctx) -> RuleResult:
    """An X10 mouse report carries each coordinate as one byte: value + 33, wrapping at 256 (columns 223..255 arrive as
    the bytes 0..32).  'with its documented coordinates' therefore needs the subtraction to be taken modulo 256: every
    coordinate the X10 reader returns (elements 2 and 3 of the event tuple) is a `% 256` of a byte of the report -
    without it the reports for the right-most columns decode to negative coordinates."""
    from ..rules.defuse import DefUse

    p = ctx.p
    rr = RuleResult("BOUND", "C05.15", "the coordinates of an X10 mouse report are the report bytes minus 33 taken modulo 256 (never negative)", floor=2)
    fi = p.func("urwid.display.escape.KeyqueueTrie.read_mouse_info")
    du = DefUse(fi)
    rets = [n for n in du.cfg.nodes if n.kind == "return" and isinstance(n.ast.value, ast.Tuple) and n.ast.value.elts and isinstance(n.ast.value.elts[0], ast.Tuple) and len(n.ast.value.elts[0].elts) == 4]
    if not rets:
        raise AnalysisError("read_mouse_info: the return of the (name, button, x, y) event was not found")
    for r in rets:
        for pos in (2, 3):
            e = r.ast.value.elts[0].elts[pos]
            ex = du.expand(e, r)
            ok = isinstance(ex, ast.BinOp) and isinstance(ex.op, ast.Mod) and isinstance(ex.right, ast.Constant) and ex.right.value == 256
            rr.inst(f"coordinate {pos - 2}: {norm(ex, 40)}", True, {"coordinate": ast.unparse(e), "value": norm(ex, 60), "modulo_256": ok})
            if not ok:
                rr.add(finding("BOUND", fi, r.ast, f"the {'column' if pos == 2 else 'row'} of an X10 mouse report is returned as `{norm(ex, 50)}`, not taken modulo 256: the bytes 0..32 stand for the coordinates 223..255 and come out negative (ESC [ M 0x20 0x00 0x00 -> ('mouse press', 1, -33, -33))", construct=f"X10 coordinate {ast.unparse(e)} not modulo 256"))
    return rr


def rule_rehook_rearms(ctx: Ctx) -> RuleResult:
    """'when the timeout does expire the pending bytes are decoded as they stand rather than lost': the timeout is an
    alarm on the event loop, and unhook_event_loop() removes it together with the input watches while the pending
    bytes stay in _partial_codes.  MainLoop replaces the hooks whenever the input descriptors change, so
    hook_event_loop() has to give pending bytes a timeout again: a test of _partial_codes whose true branch schedules
    something on the event loop (fix for: lone ESC pending across a re-hook never times out)."""
    p = ctx.p
    rr = RuleResult("PAIR", "C05.16", "hook_event_loop() re-arms the completion timeout for bytes that are still pending (unhook_event_loop() removed the alarm but keeps the bytes)", floor=1)
    cls = p.cls("urwid.display._posix_raw_display.Screen")
    un, hk = cls.methods.get("unhook_event_loop"), cls.methods.get("hook_event_loop")
    if un is None or hk is None:
        raise AnalysisError("Screen.hook_event_loop / unhook_event_loop not found")
    removes = any(isinstance(c, ast.Call) and callee_name(c) == "remove_alarm" for c in un.own_nodes())
    clears = any(isinstance(n, ast.Assign) and any(isinstance(t, ast.Attribute) and t.attr == "_partial_codes" for t in n.targets) for n in un.own_nodes())
    rr.inst("unhook_event_loop", True, {"removes_the_alarm": removes, "drops_the_pending_bytes": clears})
    if not removes or clears:
        return rr  # nothing is left behind without a timer
    cfg = cfg_of(hk)
    tests = [t for t in cfg.nodes if t.kind == "test" and any(isinstance(a, ast.Attribute) and a.attr == "_partial_codes" for a in ast.walk(t.ast))]
    sched = nodes_where(cfg, lambda c: isinstance(c, ast.Call) and isinstance(c.func, ast.Attribute) and c.func.attr in ("alarm", "parse_input") and not isinstance(c.func.value, ast.Call))
    ok = any(s_ in cfg.reachable_from_edges([(t, "T")]) for t in tests for s_ in sched)
    rr.inst("hook_event_loop re-arms", True, {"tests_of_partial_codes": [norm(t.ast, 40) for t in tests], "schedules_under_it": ok})
    if not ok:
        rr.add(finding("PAIR", hk, hk.node, "unhook_event_loop() removes the completion alarm and keeps _partial_codes, but hook_event_loop() does not set a new timeout for bytes that are still pending: after MainLoop replaced its hooks (INPUT_DESCRIPTORS_CHANGED) a lone ESC never times out and is glued to the next key", construct="pending bytes lose their timeout across unhook / hook"))
    return rr


def rule_modifier_names(ctx: Ctx) -> RuleResult:
    """'reported with its documented name': the names of modified keys are generated (escape_modifier(digit) + key)
    when the table is built, so a slip in that helper is in every entry and in no single place of the table source.
    The folded table is checked as data: (a) the modifier words in front of a key name are a strictly increasing
    selection of shift, meta, ctrl - none twice, none out of order; (b) for the xterm forms CSI 1 ; d X and
    CSI n ; d ~ the words are exactly the bits of d - 1 (1 shift, 2 alt = meta, 4 ctrl - xterm's ctlseqs).  Seed
    C05-r8a made the repetition count of 'meta ' the masked bit itself (2): 'meta meta up'."""
    import re as _re

    from ..consteval import fold_module_name

    p = ctx.p
    rr = RuleResult("TAB", "C05.18", "every generated key name carries each modifier word at most once, in the order shift meta ctrl, and the xterm modifier digit d yields the bits of d - 1", floor=100)
    m = p.modules["urwid.display.escape"]
    seqs = fold_module_name(p, m, "input_sequences")
    order = ["shift", "meta", "ctrl"]
    for k, v in seqs:
        if not isinstance(v, str) or " " not in v:
            continue
        words = v.split(" ")
        mods = [w for w in words[:-1]]
        if not all(w in order for w in mods):
            continue  # 'mouse ...' and other multi-word names
        idx = [order.index(w) for w in mods]
        ok = all(a < b for a, b in zip(idx, idx[1:]))
        want = None
        mm = _re.fullmatch(r"\[(\d+);(\d)([A-Za-z~])", k)
        if mm:
            bits = int(mm.group(2)) - 1
            want = [w for w, b in zip(order, (1, 2, 4)) if bits & b]
        rr.inst(f"{k!r}", True, {"sequence": k, "name": v, "xterm_modifiers": want} if len(rr.samples) < 6 else None)
        if not ok:
            rr.add(finding("TAB", "display.escape.input_sequences", None, f"the sequence ESC {k} is named {v!r}: a modifier word is repeated or out of the order shift meta ctrl - the key is decoded but not reported with its documented name (no handler matches it)", construct=f"malformed modifier words in {v!r}", file=m.relpath))
        elif want is not None and mods != want:
            rr.add(finding("TAB", "display.escape.input_sequences", None, f"the sequence ESC {k} carries the xterm modifier digit {mm.group(2)} (= {' + '.join(want) or 'none'}) but is named {v!r}", construct=f"modifier digit {mm.group(2)} named {' '.join(mods)}", file=m.relpath))
    return rr


def rule_alarm_handle_sentinel(ctx: Ctx) -> RuleResult:
    """The completion timeout is an alarm; its handle is kept in an attribute and None means 'no alarm pending'.  What
    alarm() returns is the event loop's business (the EventLoop protocol says 'a handle') - a loop that numbers its
    alarms hands out 0 first.  Every test of an attribute that is assigned an alarm() result compares with None by
    identity: with a truthiness test the pending alarm of a lone ESC is not cancelled when the rest of the sequence
    arrives in time, fires later and decodes the stale bytes again ('up', then 'esc'; fix 2843810)."""
    p = ctx.p
    rr = RuleResult("SENTINEL", "C05.19", "an attribute holding an event-loop alarm handle is tested against None by identity, never for truthiness", floor=3)
    mods = [mod for mod in p.modules.values() if mod.name.startswith("urwid.display") or mod.name == "urwid.event_loop.main_loop"]
    attrs = set()
    for mod in mods:
        for fi in mod.functions:
            for n in fi.own_nodes():
                if isinstance(n, ast.Assign) and isinstance(n.value, ast.Call) and isinstance(n.value.func, ast.Attribute) and n.value.func.attr == "alarm":
                    attrs |= {t.attr for t in n.targets if isinstance(t, ast.Attribute)}
    for mod in mods:
        for fi in mod.functions:
            for n in fi.own_nodes():
                tests = []
                if isinstance(n, (ast.If, ast.While, ast.IfExp)):
                    tests.append(n.test)
                for t in tests:
                    bare = []
                    stack = [t]
                    while stack:
                        x = stack.pop()
                        if isinstance(x, ast.BoolOp):
                            stack += x.values
                        elif isinstance(x, ast.UnaryOp) and isinstance(x.op, ast.Not):
                            stack.append(x.operand)
                        elif isinstance(x, ast.Attribute) and x.attr in attrs:
                            bare.append(x)
                    ident_ok = [c for c in ast.walk(t) if isinstance(c, ast.Compare) and isinstance(c.left, ast.Attribute) and c.left.attr in attrs and isinstance(c.ops[0], (ast.Is, ast.IsNot))]
                    for b in bare:
                        rr.inst(f"{short(fi)}: {norm(t, 40)}", True)
                        rr.add(finding("SENTINEL", fi, t, f"`{norm(t, 60)}` tests the alarm handle `{ast.unparse(b)}` for truthiness: an event loop may hand out a falsy handle (0 for its first alarm); the pending completion alarm is then taken for 'none pending', not removed, and fires after the sequence was already decoded - the stale bytes are decoded a second time", construct=f"{fi.name}: alarm handle tested for truthiness"))
                    for c in ident_ok:
                        rr.inst(f"{short(fi)}: {norm(c, 40)}", True, {"test": f"{short(fi)}: {norm(c, 50)}"} if len(rr.samples) < 6 else None)
    return rr


def rule_wake_reason(ctx: Ctx) -> RuleResult:
    """The synchronous completion step waits complete_wait on *all* input descriptors - the terminal and the pipe
    the SIGWINCH handler writes to.  Only the terminal staying silent for complete_wait means 'the timeout expired';
    a wake-up by the resize pipe alone says nothing about the sequence.  So wherever a parse follows a
    _wait_for_input_ready(self.complete_wait) with a computed wait_for_more, the list of descriptors that woke the
    wait takes part in that flag.  Before fix 4d24c54 the result of the wait was dropped: ESC, a resize 150 ms
    later, `[A` after another 150 ms (complete_wait 0.6) decoded as 'esc' ... instead of 'up'."""
    from ..rules.defuse import DefUse

    p = ctx.p
    rr = RuleResult("FLOW", "C05.17", "the descriptors that ended a complete_wait wait take part in the wait_for_more flag of the parse that follows it", floor=1)
    cls = p.cls("urwid.display._raw_display_base.Screen")
    for fi in p.all_class_functions(cls):
        waits = [c for c in fi.own_nodes() if isinstance(c, ast.Call) and isinstance(c.func, ast.Attribute) and c.func.attr == "_wait_for_input_ready" and c.args and "complete_wait" in ast.unparse(c.args[0])]
        if not waits:
            continue
        du = DefUse(fi)
        cfg = du.cfg
        for w in waits:
            wn = nodes_where(cfg, lambda s, w=w: s is w)
            after = cfg.reachable(wn, labels=("n", "T", "F"))
            for c in [c for c in fi.own_nodes() if isinstance(c, ast.Call) and isinstance(c.func, ast.Attribute) and c.func.attr == "parse_input"]:
                v = next((k.value for k in c.keywords if k.arg == "wait_for_more"), c.args[3] if len(c.args) > 3 else None)
                cn = nodes_where(cfg, lambda s, c=c: s is c)
                if v is None or (isinstance(v, ast.Constant) and v.value is not False) or not any(n in after for n in cn):
                    continue  # the parse keeps waiting: nothing is decoded early
                # names the flag is computed from, followed through their reaching definitions
                seen, todo, uses_wait = set(), [(v, cn[0])], False
                loose = None  # the wake-up list used otherwise than compared with the resize descriptor
                while todo and not uses_wait:
                    e, at = todo.pop()
                    if any(x is w for x in ast.walk(e)):
                        uses_wait = True
                        break
                    par = {id(ch): pa for pa in ast.walk(e) for ch in ast.iter_child_nodes(pa)}
                    for x in ast.walk(e):
                        if isinstance(x, ast.Name) and isinstance(x.ctx, ast.Load):
                            for val, _how, dn in du.reaching(x.id, at):
                                if val is w or (isinstance(val, ast.AST) and any(y is w for y in ast.walk(val))):
                                    pa = par.get(id(x))
                                    if not (isinstance(pa, ast.Compare) and isinstance(pa.ops[0], (ast.Eq, ast.NotEq)) and "_resize_pipe" in ast.unparse(pa)):
                                        loose = e
                                if (x.id, dn.id) in seen:
                                    continue
                                seen.add((x.id, dn.id))
                                if val is not None:
                                    todo.append((val, dn))
                if uses_wait and loose is not None:
                    rr.inst(f"{short(fi)}: {norm(c, 40)}", True, {"wait": norm(w, 50), "parse": norm(c, 70), "wake_reason_used_as": norm(loose, 60)})
                    rr.add(finding("FLOW", fi, c, f"wait_for_more of `{norm(c, 60)}` takes the list of woken descriptors as a plain truth value (`{norm(loose, 50)}`): only 'the resize pipe alone' says that the sequence has not had its time yet - a terminal at end of file stays readable for ever, every pass finds it 'woken', parses the same pending bytes again and the loop never ends (get_input() spins instead of decoding the bytes as they stand)", construct=f"{fi.name}: any wake-up postpones the timeout decode"))
                    continue
                rr.inst(f"{short(fi)}: {norm(c, 40)}", True, {"wait": norm(w, 50), "parse": norm(c, 70), "flag_uses_wake_reason": uses_wait})
                if not uses_wait:
                    rr.add(finding("FLOW", fi, c, f"`{norm(c, 70)}` decides wait_for_more without looking at what `{norm(w, 50)}` returned: the wait also ends when the resize pipe becomes readable, so a SIGWINCH inside the completion window makes the pending bytes decode as they stand (ESC | resize | [A gives 'esc', '[', 'A') although the timeout has not expired", construct=f"{fi.name}: wake-up reason not part of wait_for_more"))
    return rr


def run(ctx: Ctx):
    p = ctx.p
    out = [
        exc.run_exc(
            p,
            "C05.1",
            [("urwid.display.escape.process_keyqueue", None), ("urwid.display._raw_display_base.Screen.parse_input", "urwid.display._raw_display_base.Screen")],
            allowed={"urwid.display.escape.process_keyqueue": {"MoreInputRequired"}, "urwid.display._raw_display_base.Screen.parse_input": set()},
            infeasible=C05_INFEASIBLE,
            floor=10,
            description="only MoreInputRequired may escape process_keyqueue; nothing may escape Screen.parse_input (modelled origins)",
        ),
        rule_consumption(ctx),
        rule_insufficiency(ctx),
        rule_scan_exhaustion(ctx),
        rule_carry_over(ctx),
        rule_trie_table(ctx),
        fwd.run_flag_fwd(p, "C05.7", ("urwid.display.escape",), "more_available", floor=6, description="every decoder that takes `more_available` is handed the caller's own flag (the nested ESC-prefixed decode, the trie readers): a unit cut at a read boundary is held back at every nesting level"),
    ]
    from . import c11

    out.append(c11.rule_dbe_ranges(ctx, "C05.8"))
    out.append(rule_event_kind(ctx))
    out.append(rule_sync_timeout(ctx))
    out.append(rule_first_terminator(ctx))
    out.append(rule_drain_eof(ctx))
    out.append(rule_digits_only(ctx))
    out.append(rule_x10_coordinates(ctx))
    out.append(rule_rehook_rearms(ctx))
    out.append(rule_wake_reason(ctx))
    out.append(rule_modifier_names(ctx))
    out.append(rule_alarm_handle_sentinel(ctx))
    from ..rules import nameprefix

    out.append(nameprefix.run_nameprefix(ctx.p, "C05.14", ("urwid.display", "urwid.util", "urwid.event_loop.main_loop"), floor=3))
    return out


from ..mutants import Mut  # noqa: E402

_E = "urwid/display/escape.py"
_R = "urwid/display/_raw_display_base.py"
MUTANTS = [
    Mut("twin-alarm-handle-test-order", "urwid/display/_raw_display_base.py", "urwid.display._raw_display_base.Screen.parse_input", "if self._input_timeout is not None and event_loop:", "if event_loop and self._input_timeout is not None:", twin=True),
    Mut("alarm-handle-truthiness", "urwid/display/_raw_display_base.py", "urwid.display._raw_display_base.Screen.parse_input", "if self._input_timeout is not None and event_loop:", "if self._input_timeout and event_loop:", "SENTINEL|display._raw_display_base.Screen.parse_input|parse_input: alarm handle tested for truthiness"),
    Mut("sync-completion-ignores-wake-reason", "urwid/display/_raw_display_base.py", "urwid.display._raw_display_base.Screen.get_input", "wait_for_more=len(codes) > pending or resize_only)", "wait_for_more=len(codes) > pending)", "FLOW|display._raw_display_base.Screen.get_input|get_input: wake-up reason not part of wait_for_more"),
    Mut("twin-sync-completion-wake-reason-inline", "urwid/display/_raw_display_base.py", "urwid.display._raw_display_base.Screen.get_input", "wait_for_more=len(codes) > pending or resize_only)", "wait_for_more=len(codes) > pending or ready == [self._resize_pipe_rd.fileno()])", twin=True),
    Mut("rehook-forgets-pending-bytes", "urwid/display/_posix_raw_display.py", "urwid.display._posix_raw_display.Screen.hook_event_loop", "        if self._partial_codes:\n            # an incomplete sequence is still pending and unhook_event_loop() removed its completion alarm:\n            # parse again (with whatever arrived since), which sets a new alarm or decodes what is there\n            event_loop.alarm(0, wrapper)\n", "", "PAIR|display._posix_raw_display.Screen.hook_event_loop|pending bytes lose their timeout across unhook / hook"),
    Mut("x10-coordinates-without-modulo", _E, "KeyqueueTrie.read_mouse_info", "        x, y = (keys[1] - 33) % 256, (keys[2] - 33) % 256  # supports 0-255", "        x, y = keys[1] - 33, keys[2] - 33", "BOUND|display.escape.KeyqueueTrie.read_mouse_info|X10 coordinate x not modulo 256"),
    Mut("meta-fold-test-as-prefix", _E, "process_keyqueue", 'run[0].find("meta ") >= 0', 'run[0].startswith("meta ")', "SIB|display.escape.process_keyqueue|'meta' tested as a prefix"),
    Mut("sgr-mouse-fields-straight-to-int", "urwid/display/escape.py", "KeyqueueTrie.read_sgrmouse_info", "        if not all(field.isascii() and field.isdigit() for field in fields):\n            # int() would also take signs, blanks and underscores: not a known sequence\n            return None\n", "", "TAINT|display.escape.KeyqueueTrie.read_sgrmouse_info|terminal text to int() without digit test"),
    Mut("sgr-mouse-fields-isdigit-only", "urwid/display/escape.py", "KeyqueueTrie.read_sgrmouse_info", "field.isascii() and field.isdigit()", "field.isdigit()", "TAINT|display.escape.KeyqueueTrie.read_sgrmouse_info|terminal text to int() without digit test"),
    Mut("sync-completion-single-retry", "urwid/display/_raw_display_base.py", "urwid.display._raw_display_base.Screen.get_input", "        while self._partial_codes:", "        if self._partial_codes:", "PASS|display._raw_display_base.Screen.get_input|get_input: partial sequence not re-tested after a parse"),
    Mut("raw-input-drain-ignores-eof", "urwid/display/_posix_raw_display.py", "urwid.display._posix_raw_display.Screen._read_raw_input", "                data = os.read(fd, 1024)\n                if not data:\n                    # end of file: the descriptor stays \"readable\" forever\n                    break\n                chars.extend(data)", "                chars.extend(os.read(fd, 1024))", "PROG|display._posix_raw_display.Screen._read_raw_input"),
    Mut("sgr-mouse-prefers-press-terminator", _E, "KeyqueueTrie.read_sgrmouse_info", "        value = \"\"\n        pos_m = 0\n        found_m = False\n        for k in keys:\n            value += chr(k)\n            if k in {ord(\"M\"), ord(\"m\")}:\n                found_m = True\n                break\n            pos_m += 1\n        if not found_m:", "        value = \"\".join(chr(k) for k in keys)\n        pos_m = value.find(\"M\")\n        if pos_m < 0:\n            pos_m = value.find(\"m\")\n        found_m = pos_m >= 0\n        value = value[: pos_m + 1]\n        if not found_m:", "SIB|display.escape.KeyqueueTrie.read_sgrmouse_info"),
    Mut("sync-get-input-holds-partial-forever", "urwid/display/_raw_display_base.py", "urwid.display._raw_display_base.Screen.get_input", "        while self._partial_codes:\n", "        while False:\n", "PASS|display._raw_display_base.Screen.get_input"),
    Mut("sync-get-input-second-parse-still-waits", "urwid/display/_raw_display_base.py", "urwid.display._raw_display_base.Screen.get_input", "self.parse_input(None, None, codes, wait_for_more=len(codes) > pending or resize_only)", "self.parse_input(None, None, codes)", "PASS|display._raw_display_base.Screen.get_input"),
    Mut("sync-get-input-constant-false", "urwid/display/_raw_display_base.py", "urwid.display._raw_display_base.Screen.get_input", "self.parse_input(None, None, codes, wait_for_more=len(codes) > pending or resize_only)", "self.parse_input(None, None, codes, wait_for_more=False)", "FLOW|display._raw_display_base.Screen.get_input|get_input: wake-up reason not part of wait_for_more"),
    Mut("meta-branch-only-knows-mouse-tuples", _E, "process_keyqueue", "        if isinstance(run[0], tuple):", "        if urwid.util.is_mouse_event(run[0]):", "KIND|display.escape.process_keyqueue"),
    Mut("meta-decode-never-waits", _E, "process_keyqueue", "run, remaining_codes = process_keyqueue(codes[1:], more_available)", "run, remaining_codes = process_keyqueue(codes[1:], False)", "FLAG-FWD|display.escape.process_keyqueue"),
    Mut("mouse-info-no-more-input", _E, "KeyqueueTrie.read_mouse_info", "        if len(keys) < 3:\n            if more_available:\n                raise MoreInputRequired()\n            return None", "        if len(keys) < 3:\n            return None", "PAIR|display.escape.KeyqueueTrie.read_mouse_info"),
    Mut("cursor-report-cut-before-R", _E, "KeyqueueTrie.read_cursor_position", "        if not keys[i:] and more_available:\n            raise MoreInputRequired()\n        return None", "        return None", "PAIR|display.escape.KeyqueueTrie.read_cursor_position"),
    Mut("utf8-tail-not-awaited", _E, "process_keyqueue", "            if len(codes) <= i:\n                if more_available:\n                    raise MoreInputRequired()\n", "            if len(codes) <= i:\n", "PAIR|display.escape.process_keyqueue"),
    Mut("sgr-mouse-int-unguarded", _E, "KeyqueueTrie.read_sgrmouse_info", "        try:\n            (b, x, y) = (int(val) for val in fields)\n        except ValueError:\n            # malformed report (wrong number of fields): not a known sequence\n            return None", "        (b, x, y) = (int(val) for val in fields)", "EXC|"),
    Mut("partial-codes-not-kept", _R, "urwid.display._raw_display_base.Screen.parse_input", "            self._partial_codes = codes\n", "", "ORDER|"),
    Mut("timeout-not-cancelled-before-parse", _R, "urwid.display._raw_display_base.Screen.parse_input", "        if self._input_timeout is not None and event_loop:\n            event_loop.remove_alarm(self._input_timeout)\n            self._input_timeout = None\n", "", "ORDER|"),
    Mut("twin-mouse-info-guard-merged", _E, "KeyqueueTrie.read_mouse_info", "        if len(keys) < 3:\n            if more_available:\n                raise MoreInputRequired()\n            return None", "        if len(keys) < 3 and more_available:\n            raise MoreInputRequired()\n        if len(keys) < 3:\n            return None", twin=True),
]
