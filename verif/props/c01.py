"""C01 - every widget renders a canvas of exactly the size its container asked for."""

from __future__ import annotations

import ast
import re

from ..core import Ctx, RuleResult, finding, short, walk_no_nested
from ..model import AnalysisError, norm
from ..mutants import Mut
from ..rules import accum, loopfresh, fwd, dim, fresh, kind, memo, posbound, runpos
from ..rules.defuse import DefUse
from ..rules.util import callee_name, calls_in, cfg_of, lin_str, linear, nodes_where
from ..tables import C01_DIM_EXCEPTIONS

EXPLANATION = (
    "Decided (necessary structural conditions of C01, for every widget class and every path): (1) DIM: no screen-column quantity flows to a place that expects rows (or vice versa) in any "
    "size handed to a child, any canvas pad/trim call, or the values rows()/pack() return - units are seeded from the widget API's positional meaning, never from names; "
    "(2) the same typing makes the list a flow Pile sums in rows() and the heights it renders from both ROWS sequences; (3) KIND: no item store / append on a frozenset or tuple "
    "(sizing(), pack() results); (4) Text: rows(), pack() and render() obtain the layout from the same get_line_translation(maxcol) and apply_text_layout appends exactly one output line "
    "per layout line on every path, so reported rows = rendered rows for Text by construction; (5) pad-to-fill direction: wherever a container brings a canvas to the requested size, "
    "the amount handed to pad_trim_* is (target - actual) with `actual` the cols()/rows() of the very canvas being padded; (6) POSBOUND: every comparison of a 0-based screen "
    "coordinate (cursor element, col/row parameter) with an extent (size element, rows(), cols()) is half-open, so a cursor equal to the extent is outside; (8) the weighted shares of Columns / Pile are taken with running remainders in ascending order when clamped (shared with C19.2) - otherwise the widths sum to more than the "
    "requested columns and the canvas is too wide; (7) FRESHLIST: padding/"
    "trimming never edits in place a shard or cview list shared with the wrapped (possibly cached) canvas - otherwise a re-render of the unchanged child has a different size."
    ' Added after seed round 3: (9) FOCUS-FWD - every function that receives `focus` hands it on to each callee that takes it, so render(), rows() and pack() agree on the size of the focused rendering; (10) the Scrollable clamp rule of C20 (an unclamped position trims more rows than exist); (11) ACCUM - the running column of shards_trim_sides and the space budget of Columns.column_widths advance in every continuing iteration; (12) BarGraph.hlines_display collapses h-lines by the row it stores.'
    ' Round 4: (13) LOOPFRESH, (14) segment width measured over its own offsets (C03.13), (15) scroll-bar parts (C20.3).'
    " Round-4 triage: (17) widget text is cut into lines at the layout's separator only - no str.splitlines() in the widget / layout / canvas layers; split()/count() in a measurement use the newline constant of the layout. Round 5: (18) Frame.render cuts each part with its own trim; (19) SHADOW - no loop target clobbers a live local (the rule that found the resize() defect of vterm, applied to all widget modules); (20) every CompositeCanvas method that cuts rows / columns away drops a cursor left outside."
    ' (21) NONNEG: the position given to CanvasOverlay() / overlay() is clamped at 0 wherever the calling function itself treats it as possibly negative (fix a7d4a9b: Overlay with a packed top widget wider than the screen gave rows of 9, 11, 9 columns).'
    ' (22) SIB: every inversion of a relative size (child * 100 / percent) in the widget layer rounds to the nearest cell, so pack() and the padding computation of render() agree on the total (fix b429ef1: Padding.pack(()) == (17, 1) but render(()).cols() == 16).'
    ' (23) RUNPOS: every (value, length) run written by hand into a canvas (ProgressBar.render -> _attr / _cs) has a length that the dominating tests show positive - linear atoms from the tests, entailment of L > 0 (fix 31a962b: [(complete, 0), (normal, maxcol)] made content() yield an empty row).'
    ' (24) MEMO: a hand-written dict memo (if K in self.D: return self.D[K] ... self.D[K] = v) whose value depends on a module global that a setter rebinds has such a global in its key (fix 39ac3d2: Font.render cached glyph canvases by character alone although their bytes come from apply_target_encoding()).'
    ' Round 6: (25) SIB: the rows cut off below the focus (max(E, 0)) and the rows free below it (-E) in ListBox.calculate_visible are computed from the same state; (26) BOUND: BarGraph width lists built as [w] * n are bounded by the available columns.'
    ' (27) POSBOUND: a get_cursor_coords() that rejects its computed column beyond the right edge also rejects a negative one (shared with C09.17; fix 2daba5c: clip + right alignment gave the cursor (-4, 0)).'
    ' (28) SIB: Padding.pack() and padding_values() state the same unsized total for a given width, compared as linear forms (fix a506415: min_width widened pack() but not render()).'
    ' Round 8: (29) GUARD: a pad_trim call by target - actual is not placed under a one-sided comparison of the two (unless the other side cannot occur or is handled by a test of its own); (30) RUNPOS: every pad segment (n, None) the layout module builds has n shown non-zero.'
    ' Round-8 triage: (31) GUARD: a method whose size may be () indexes it only under a test of the size (fix c5b9499).'
    ' (28) now compares the unsized totals of pack() and padding_values() for all three width types (fix d053bde: min_width was applied by pack() only on the pack / relative arms).'
)
NOT_DECIDED = (
    "That composed canvases actually have the requested size for all trees/sizes/texts (value semantics of shards, layout and padding); truthfulness of sizing(); wide-character column "
    "arithmetic; cursor-inside-canvas; sites whose `actual` is a hand-kept counter (ListBox, BarGraph) are listed as uncompared."
)
ASSUMPTIONS = ["DIM: a value that never meets an API seed stays untyped and is not checked."]

MODULES_EXTRA = ["urwid.canvas", "urwid.vterm", "urwid.numedit", "urwid.text_layout", "urwid.graphics", "urwid.treetools"]


def modules(p):
    return sorted(m for m in p.modules if m.startswith("urwid.widget")) + MODULES_EXTRA


# --------------------------------------------------------------------------- clause 4
def _strip_wrappers(txt: str) -> str:
    """CompositeCanvas(X) has the size of X: strip such wrappers for identity comparison."""
    while True:
        m = re.fullmatch(r"(?:canvas\.)?CompositeCanvas\((.*)\)", txt)
        if not m:
            return txt
        txt = m.group(1)


def rule_text_rows(ctx: Ctx) -> RuleResult:
    p = ctx.p
    rr = RuleResult("ORDER", "C01.4", "Text.rows/pack/render take the layout from the same get_line_translation(maxcol); apply_text_layout emits one line per layout line on every path", floor=5)
    T = "urwid.widget.text.Text"

    def glt_call(du: DefUse, e, at):
        x = du.expand(e, at)
        if isinstance(x, ast.Call) and ast.unparse(x.func) == "self.get_line_translation" and x.args:
            return x
        return None

    # rows(): every return is len(get_line_translation(maxcol))
    rows = p.func(f"{T}.rows")
    du = DefUse(rows)
    rets = [n for n in rows.own_nodes() if isinstance(n, ast.Return)]
    for r in rets:
        rr.inst(f"Text.rows:{norm(r, 60)}", True, {"function": "Text.rows", "return": norm(r, 70)})
        v = r.value
        ok = isinstance(v, ast.Call) and callee_name(v) == "len" and len(v.args) == 1 and glt_call(du, v.args[0], du.node_of(r)) is not None
        if not ok:
            rr.add(finding("ORDER", rows, r, "Text.rows() does not return len(self.get_line_translation(maxcol)): the reported row count is no longer the number of layout lines render() draws", construct=norm(r, 90)))
    if not rets:
        raise AnalysisError("Text.rows has no return statement")
    # render(): apply_text_layout(text, attr, trans, maxcol) with trans = get_line_translation(maxcol, ...)
    render = p.func(f"{T}.render")
    du = DefUse(render)
    n_apply = 0
    for r in [n for n in render.own_nodes() if isinstance(n, ast.Return)]:
        v = r.value
        rr.inst(f"Text.render:{norm(r, 60)}", True, {"function": "Text.render", "return": norm(r, 70)})
        if not (isinstance(v, ast.Call) and callee_name(v) == "apply_text_layout" and len(v.args) >= 4):
            rr.add(finding("ORDER", render, r, "Text.render() returns something other than apply_text_layout(text, attr, layout, maxcol)", construct=norm(r, 90)))
            continue
        n_apply += 1
        g = glt_call(du, v.args[2], du.node_of(r))
        if g is None:
            rr.add(finding("ORDER", render, r, "the layout Text.render() draws is not the result of self.get_line_translation(...): rows() and render() can disagree", construct=norm(r, 90)))
            continue
        w_layout = ast.unparse(g.args[0])
        w_canvas = du.text(v.args[3], du.node_of(r))
        if w_layout != w_canvas:
            rr.add(finding("ORDER", render, r, f"Text.render() lays the text out for width `{w_layout}` but builds the canvas with width `{w_canvas}`", construct=norm(r, 90)))
    if not n_apply:
        raise AnalysisError("Text.render no longer calls apply_text_layout")
    # pack(size given): second component is len(trans) or self.rows(size, ...)
    pack = p.func(f"{T}.pack")
    du = DefUse(pack)
    cfg = cfg_of(pack)
    size_tests = [n for n in cfg.nodes if n.kind == "test" and isinstance(n.ast, ast.Name) and n.ast.id == "size"]
    if not size_tests:
        raise AnalysisError("Text.pack: `if size:` test not found")
    in_size = cfg.reachable_from_edges([(size_tests[0], "T")], avoid=[])
    no_size = cfg.reachable_from_edges([(size_tests[0], "F")])
    for r in [n for n in pack.own_nodes() if isinstance(n, ast.Return)]:
        cn = du.node_of(r)
        if cn is None or cn not in in_size or cn in no_size:
            continue
        v = r.value
        rr.inst(f"Text.pack:{norm(r, 60)}", True, {"function": "Text.pack", "return": norm(r, 70)})
        ok = False
        if isinstance(v, ast.Tuple) and len(v.elts) == 2:
            e = v.elts[1]
            if isinstance(e, ast.Call) and callee_name(e) == "len" and e.args and glt_call(du, e.args[0], cn) is not None:
                ok = True
            elif isinstance(e, ast.Call) and ast.unparse(e.func) == "self.rows":
                ok = True
        if not ok:
            rr.add(finding("ORDER", pack, r, "Text.pack((maxcol,)) reports a row count that is neither len(get_line_translation(maxcol)) nor self.rows(size): fixed/flow size and rendered canvas can disagree", construct=norm(r, 90)))
    # apply_text_layout: one t/a/c append per layout line on every iteration path, returns TextCanvas(t, a, c)
    atl = p.func("urwid.canvas.apply_text_layout")
    cfg = cfg_of(atl)
    ls_param = atl.params[2] if len(atl.params) > 2 else None
    loops = [n for n in cfg.nodes if n.kind == "for" and isinstance(n.ast.iter, ast.Name) and n.ast.iter.id == ls_param]
    if len(loops) != 1:
        raise AnalysisError("apply_text_layout: the loop over the layout structure (third parameter) was not found")
    head = loops[0]
    ret = [n for n in atl.own_nodes() if isinstance(n, ast.Return) and isinstance(n.value, ast.Call) and callee_name(n.value) == "TextCanvas"]
    if not ret:
        raise AnalysisError("apply_text_layout no longer returns TextCanvas(...)")
    lists = [ast.unparse(a) for a in ret[0].value.args[:3]]
    for lst in lists:
        apps = nodes_where(cfg, lambda s, lst=lst: isinstance(s, ast.Call) and isinstance(s.func, ast.Attribute) and s.func.attr == "append" and ast.unparse(s.func.value) == lst)
        rr.inst(f"apply_text_layout:{lst}.append per line", True, {"list": lst, "append_sites": len(apps)})
        # every path from the loop head's T edge back to the head passes an append site; no append inside a nested loop
        body_first = cfg.reachable_from_edges([(head, "T")], avoid=apps)
        if head in body_first or not apps:
            path = cfg.witness_path(head, [head], avoid=apps)
            rr.add(finding("ORDER", atl, head.ast, f"a path through the per-line loop does not append to `{lst}`: the canvas would have fewer rows than the layout has lines", construct=f"missing {lst}.append on an iteration path"))
        for a in apps:
            inner = [n for n in cfg.nodes if n.kind in ("for", "test") and n is not head and isinstance(n.stmt, (ast.For, ast.While)) and a in cfg.reachable_from_edges([(n, "T")], avoid=[n]) and n in cfg.reachable([a], avoid=[head])]
            if inner:
                rr.add(finding("ORDER", atl, a.stmt, f"`{lst}.append` sits inside a nested loop: more than one output row per layout line", construct=f"{lst}.append in nested loop"))
        # no break out of the per-line loop
    brk = [n for n in cfg.nodes if n.kind == "break" and head in cfg.reachable([head], labels=None) and n in cfg.reachable_from_edges([(head, "T")], avoid=[head])]
    for b in brk:
        # a break that leaves the per-line loop (not an inner loop)
        par_loops = [x for x in ast.walk(head.ast) if isinstance(x, (ast.For, ast.While)) and x is not head.ast and any(y is b.ast for y in ast.walk(x))]
        if not par_loops:
            rr.add(finding("ORDER", atl, b.ast, "`break` leaves the per-line loop early: remaining layout lines are not rendered", construct="break in per-line loop"))
    return rr


# --------------------------------------------------------------------------- clause 5
PAD_DIM = {"pad_trim_left_right": "cols", "pad_trim_top_bottom": "rows"}
_ACTUAL = re.compile(r"^(.*)\.(rows|cols)\(\)$")


def rule_pad_to_fill(ctx: Ctx) -> RuleResult:
    p = ctx.p
    rr = RuleResult("PAIR", "C01.5", "pad-to-fill amounts are (target - actual) with `actual` the cols()/rows() of the very canvas being padded", floor=7)
    uncompared = []
    for mname in modules(p):
        m = p.modules.get(mname)
        if m is None:
            continue
        for fi in m.functions:
            calls = [c for c in fi.own_nodes() if isinstance(c, ast.Call) and isinstance(c.func, ast.Attribute) and c.func.attr in PAD_DIM]
            if not calls or (fi.cls is not None and fi.cls.name in ("Canvas", "CompositeCanvas")):
                continue
            du = DefUse(fi)
            for c in calls:
                at = du.node_of(c)
                if at is None:
                    continue
                want = PAD_DIM[c.func.attr]
                recv = _strip_wrappers(du.text(c.func.value, at))
                for idx, a in enumerate(c.args[:2]):
                    if isinstance(a, ast.Constant):
                        continue
                    L = linear(du.expand(a, at))
                    ident = f"{short(fi)}:{norm(c, 70)}#{idx}"
                    acts = [(k, v) for k, v in (L or {}).items() if _ACTUAL.match(k)]
                    if L is None or not acts:
                        uncompared.append(f"{short(fi)}: {norm(c, 60)} arg {idx} = {lin_str(L) if L is not None else 'non-linear'}")
                        rr.inst(ident, False)
                        continue
                    rr.inst(ident, True, {"function": short(fi), "call": norm(c, 70), "amount": lin_str(L), "receiver": recv[:60]} if len(rr.samples) < 6 else None)
                    for term, coef in acts:
                        mm = _ACTUAL.match(term)
                        owner, meth = _strip_wrappers(mm.group(1)), mm.group(2)
                        if meth != want:
                            rr.add(finding("PAIR", fi, c, f"`{norm(c, 60)}` pads {want} by an amount computed from `{term}`", construct=f"{norm(c, 60)} uses {meth}()"))
                        elif owner != recv:
                            rr.add(finding("PAIR", fi, c, f"`{norm(c, 60)}` pads canvas `{recv[:50]}` by the deficit of a different canvas `{owner[:50]}`: the result is not brought to the target size", construct=f"{norm(c, 60)} pads by the deficit of another canvas"))
                        elif coef != -1:
                            rr.add(finding("PAIR", fi, c, f"`{norm(c, 60)}`: the amount is `{lin_str(L)}`; a fill amount must be target - actual (coefficient of `{term}` is {coef:+d}): the canvas is trimmed where it should be padded (or vice versa)", construct=f"{norm(c, 60)} amount sign"))
                    others = {k: v for k, v in L.items() if not _ACTUAL.match(k) and k != ""}
                    if len(acts) == 1 and acts[0][1] == -1 and (len(others) != 1 or list(others.values())[0] != 1):
                        rr.add(finding("PAIR", fi, c, f"`{norm(c, 60)}`: the amount `{lin_str(L)}` is not of the form target - actual with a single target term", construct=f"{norm(c, 60)} amount form"))
    rr.floor_nontrivial = 7
    rr.notes.append(f"uncompared pad sites (amount not of the form target - canvas.rows()/cols(); no verdict): {len(uncompared)}")
    rr.units = {"uncompared": uncompared}
    return rr


def rule_pad_segment_nonzero(ctx: Ctx) -> RuleResult:
    """A layout line may start with a pad segment (n, None): n blank columns (or a trim for n < 0).  apply_text_layout
    turns it into a run of length n in the attribute / character-set run lists, and a run of length 0 ends the row
    there (rle_product stops at it: the row comes out 0 columns wide, C01.23).  Every pad segment the layout module
    builds has an amount that the tests on the way show to be non-zero (`if amount:`, `x if x else ...`, `sc == width`
    excluded before `width - sc`).  Seed C01-r8b folded the `if amount:` of shift_line() away: a view shift that exactly
    cancels the alignment shift gave (0, None) and an empty cursor row in a right-aligned Edit."""
    from ..rules.exc import ExcEngine
    from ..rules.runpos import _atoms

    p = ctx.p
    rr = RuleResult("RUNPOS", "C01.30", "every pad segment (amount, None) built by the layout module has an amount shown non-zero by the tests on the way to it", floor=3)
    for fi in p.functions.values():
        if fi.module.name != "urwid.text_layout" or fi.is_lambda:
            continue
        tuples = [t for t in fi.own_nodes() if isinstance(t, ast.Tuple) and isinstance(t.ctx, ast.Load) and len(t.elts) == 2 and isinstance(t.elts[1], ast.Constant) and t.elts[1].value is None and not isinstance(t.elts[0], ast.Constant)]
        if not tuples:
            continue
        cfg = cfg_of(fi)
        parents = {id(ch): pa for pa in ast.walk(fi.node) for ch in ast.iter_child_nodes(pa)}
        for t in tuples:
            E = t.elts[0]
            L = linear(E)
            ok = False
            x = t
            while id(x) in parents and not isinstance(x, ast.stmt):
                pa = parents[id(x)]
                if isinstance(pa, ast.IfExp) and pa.body is x and L is not None and linear(pa.test) == L:
                    ok = True
                x = pa
            cn = next((n for n in cfg.nodes for e in _node_exprs(n) for y in ast.walk(e) if y is t), None)
            facts = []
            if cn is not None and L is not None:
                for tn in cfg.nodes:
                    if tn.kind != "test":
                        continue
                    for lab, truth in (("T", True), ("F", False)):
                        if cn not in ExcEngine._reach_without_edge(cfg, tn, lab):
                            facts += _atoms(tn.ast, truth)
                negL = {k: -v for k, v in L.items()}
                if any((e == L or e == negL) and o in ("!=", ">", "<") for e, o in facts):
                    ok = True
            rr.inst(f"{short(fi)}: {norm(t, 40)}", True, {"segment": f"{short(fi)}: {norm(t, 50)}", "amount": lin_str(L) if L is not None else ast.unparse(E), "shown_non_zero": ok})
            if not ok:
                rr.add(finding("RUNPOS", fi, t, f"the pad segment `{norm(t, 50)}` is built although nothing on the way shows `{ast.unparse(E)}` to be non-zero: (0, None) becomes a run of length 0 in the row's attribute runs, TextCanvas.content() ends the row there - a row 0 columns wide in a canvas that is maxcol wide", construct=f"{fi.name}: pad segment amount {ast.unparse(E)} not shown non-zero"))
    return rr


_SIZE_INDEX_OK = {
    "widget.pile.Pile.get_item_rows": "annotated with tuple[()] but called with a sized tuple only: get_rows_sizes() packs the items of a fixed Pile itself",
    "widget.pile.Pile.render": "the empty-combinelist arm: a Pile that reports FIXED has a fixed item with at least one row, a Pile without rows reports flow / box only",
}


def rule_size_index_guarded(ctx: Ctx) -> RuleResult:
    """A widget method that accepts the fixed size `()` (its `size` annotation says so) may index the tuple only where
    a test has shown it non-empty - `if size:`, `len(size) == 2`, `x if size else y`.  An unguarded size[0] works for
    every flow / box call and raises IndexError for the fixed one: Padding.render() took the width of its blank
    replacement canvas from size[0] when the child rendered 0 columns wide (fix c5b9499: Padding(Text(''),
    width='pack').render(()) -> IndexError although sizing() reports FIXED)."""
    from ..rules.exc import ExcEngine

    p = ctx.p
    rr = RuleResult("GUARD", "C01.31", "a method whose size may be () indexes it only under a test of the size", floor=15)
    for q, fi in sorted(p.functions.items()):
        if not fi.module.name.startswith("urwid.widget") or fi.is_lambda or "size" not in fi.params:
            continue
        arg = next((a for a in fi.node.args.args + fi.node.args.kwonlyargs if a.arg == "size"), None)
        if arg is None or arg.annotation is None or "tuple[()]" not in ast.unparse(arg.annotation):
            continue
        subs = [x for x in fi.own_nodes() if isinstance(x, ast.Subscript) and isinstance(x.value, ast.Name) and x.value.id == "size" and isinstance(x.ctx, ast.Load) and isinstance(x.slice, ast.Constant) and isinstance(x.slice.value, int)]
        if not subs:
            continue
        cfg = cfg_of(fi)
        parents = {id(ch): pa for pa in ast.walk(fi.node) for ch in ast.iter_child_nodes(pa)}
        for sb in subs:
            ok = False
            x = sb
            while id(x) in parents and not isinstance(x, ast.stmt):
                pa = parents[id(x)]
                if isinstance(pa, ast.IfExp) and "size" in ast.unparse(pa.test):
                    ok = True
                if isinstance(pa, ast.BoolOp) and any("size" in ast.unparse(v) for v in pa.values if not any(y is sb for y in ast.walk(v))):
                    ok = True
                x = pa
            cn = next((n for n in cfg.nodes for e in _node_exprs(n) for y in ast.walk(e) if y is sb), None)
            if cn is not None and not ok:
                for t in cfg.nodes:
                    if t.kind == "test" and any(isinstance(y, ast.Name) and y.id == "size" for y in ast.walk(t.ast)) and not any(y is sb for y in ast.walk(t.ast)):
                        if cn not in ExcEngine._reach_without_edge(cfg, t, "T") or cn not in ExcEngine._reach_without_edge(cfg, t, "F"):
                            ok = True
            rr.inst(f"{short(fi)}: {norm(parents.get(id(sb), sb), 40)}", True, {"site": f"{short(fi)}: {norm(parents.get(id(sb), sb), 60)}", "under_a_size_test": ok} if len(rr.samples) < 6 else None)
            if not ok:
                if short(fi) in _SIZE_INDEX_OK:
                    rr.exceptions_used.append(f"{short(fi)} - {_SIZE_INDEX_OK[short(fi)]}")
                    continue
                rr.add(finding("GUARD", fi, sb, f"`{norm(parents.get(id(sb), sb), 60)}` indexes `size` although {fi.name}() accepts the fixed size () and no test of the size lies on the way: every flow / box call works, the fixed rendering the widget's sizing() advertises raises IndexError", construct=f"{fi.name}: size[{sb.slice.value}] without a size test"))
    return rr


def rule_adjust_both_ways(ctx: Ctx) -> RuleResult:
    """A widget that brings its canvas to the requested size with pad_trim_*(.., target - actual) relies on the sign of
    the amount: positive pads, negative trims.  A guard in front of the call may only skip the case target == actual
    (`if target - actual:`, `if target != actual:`); a one-sided guard (`if actual < target:`) keeps the padding and
    silently drops the trimming - the canvas comes out larger than the size asked for whenever the content overhangs
    (seed C01-r8a: GraphVScale with a wrapped label at the bottom)."""
    from ..rules.exc import ExcEngine

    p = ctx.p
    rr = RuleResult("GUARD", "C01.29", "a pad_trim call whose amount is target - actual is not placed under a one-sided comparison of the same two quantities", floor=3)
    for mname in modules(p):
        m = p.modules.get(mname)
        if m is None:
            continue
        for fi in m.functions:
            calls = [c for c in fi.own_nodes() if isinstance(c, ast.Call) and isinstance(c.func, ast.Attribute) and c.func.attr in PAD_DIM]
            if not calls or (fi.cls is not None and fi.cls.name in ("Canvas", "CompositeCanvas")):
                continue
            cfg = cfg_of(fi)
            for c in calls:
                cn = next((n for n in cfg.nodes for e in _node_exprs(n) for x in walk_no_nested(e) if x is c), None)
                if cn is None:
                    continue
                for a in c.args[:2]:
                    L = linear(a)
                    if L is None or "" in L or sorted(L.values()) != [-1, 1]:
                        continue
                    one_sided = None
                    for t in cfg.nodes:
                        if t.kind != "test" or not isinstance(t.ast, ast.Compare) or len(t.ast.ops) != 1 or not isinstance(t.ast.ops[0], (ast.Lt, ast.Gt, ast.LtE, ast.GtE)):
                            continue
                        if cn in ExcEngine._reach_without_edge(cfg, t, "T") and cn in ExcEngine._reach_without_edge(cfg, t, "F"):
                            continue
                        D = linear(ast.BinOp(left=t.ast.left, op=ast.Sub(), right=t.ast.comparators[0]))
                        if D is not None and (D == L or D == {k: -v for k, v in L.items()}):
                            one_sided = t
                    if one_sided is not None:
                        neg = {k: -v for k, v in L.items()}
                        pos_name = next(k for k, v in L.items() if v == 1)
                        neg_name = next(k for k, v in L.items() if v == -1)
                        # the other sign cannot occur (target = max(target, actual)) or is dealt with by a test of its own
                        for n2 in fi.own_nodes():
                            if isinstance(n2, ast.Assign) and any(isinstance(t2, ast.Name) and t2.id == pos_name for t2 in n2.targets) and isinstance(n2.value, ast.Call) and callee_name(n2.value) == "max" and any(isinstance(x, ast.Name) and x.id == neg_name for x in n2.value.args):
                                one_sided = None
                            if isinstance(n2, ast.Compare) and len(n2.ops) == 1 and isinstance(n2.ops[0], (ast.Lt, ast.Gt)) and one_sided is not None and n2 is not one_sided.ast:
                                D2 = linear(ast.BinOp(left=n2.left, op=ast.Sub(), right=n2.comparators[0]))
                                s1 = 1 if isinstance(one_sided.ast.ops[0], (ast.Gt, ast.GtE)) else -1
                                D1 = linear(ast.BinOp(left=one_sided.ast.left, op=ast.Sub(), right=one_sided.ast.comparators[0]))
                                s2 = 1 if isinstance(n2.ops[0], ast.Gt) else -1
                                # same quantities, opposite direction
                                if D2 is not None and D1 is not None and ((D2 == D1 and s2 == -s1) or (D2 == {k: -v for k, v in D1.items()} and s2 == s1)):
                                    one_sided = None
                    rr.inst(f"{short(fi)}: {norm(c, 50)}", True, {"call": f"{short(fi)}: {norm(c, 60)}", "amount": lin_str(L), "one_sided_guard": norm(one_sided.ast, 40) if one_sided is not None else None} if len(rr.samples) < 8 else None)
                    if one_sided is not None:
                        rr.add(finding("GUARD", fi, c, f"`{norm(c, 60)}` adjusts by `{lin_str(L)}` but runs only under `{norm(one_sided.ast, 40)}`: the other sign of the difference is never applied - where the content overhangs the requested size the canvas is returned too large (WidgetError for a box widget)", construct=f"{fi.name}: size adjustment under a one-sided guard"))
    return rr


def _node_exprs(n):
    from ..rules.util import node_exprs

    return node_exprs(n)


def _apportion(ctx: Ctx):
    from . import c19

    r = c19.rule_apportion(ctx)
    r.clause = "C01.8"
    return r


def _segment_positive(ctx: Ctx):
    """rendering succeeds: no zero-column text segment reaches LayoutSegment (C03.15)"""
    from . import c03

    return c03.rule_segment_positive(ctx, "C01.16")


def _scrollbar_parts(ctx: Ctx):
    """the three parts of the scroll bar must add up to the view height, or the box widget returns more rows than asked"""
    from . import c20

    r = c20.rule_scrollbar_parts(ctx)
    r.clause = "C01.15"
    return r


def c03_segment_width(ctx: Ctx):
    from . import c03

    return c03.rule_segment_width(ctx, "C01.14")


def _scroll_clamp(ctx: Ctx):
    """Scrollable trims the rendered content by the stored position: an unclamped position trims more rows than
    exist (ValueError) or leaves fewer rows than requested - the clamp rule of C20 is a necessary condition here."""
    from . import c20

    r = c20.rule_trim_writers(ctx)
    r.clause = "C01.10"
    return r


def rule_hline_dedup(ctx: Ctx) -> RuleResult:
    """BarGraph.hlines_display collects one (row, character) entry per horizontal line; the consumer inserts one
    extra row set per entry, keyed by the row.  Two h-lines that fall on the same screen row must therefore be
    collapsed by comparing the *row* that is stored - comparing anything finer (the unrounded position) lets two
    entries for one row through and the graph grows taller than the size it was asked for."""
    p = ctx.p
    rr = RuleResult("PAIR", "C01.12", "BarGraph.hlines_display drops a horizontal line when its row equals the row stored for the previous one", floor=1)
    fi = p.func("urwid.widget.bar_graph.BarGraph.hlines_display")
    found = 0
    for loop in [n for n in fi.own_nodes() if isinstance(n, ast.For)]:
        apps = [c for c in ast.walk(loop) if isinstance(c, ast.Call) and isinstance(c.func, ast.Attribute) and c.func.attr == "append" and c.args and isinstance(c.args[0], ast.Tuple) and c.args[0].elts and isinstance(c.args[0].elts[0], ast.Name)]
        skips = [n for n in loop.body if isinstance(n, ast.If) and len(n.body) == 1 and isinstance(n.body[0], ast.Continue) and isinstance(n.test, ast.Compare) and len(n.test.ops) == 1 and isinstance(n.test.ops[0], ast.Eq) and isinstance(n.test.left, ast.Name) and isinstance(n.test.comparators[0], ast.Name)]
        if not apps or not skips:
            continue
        found += 1
        key = apps[0].args[0].elts[0].id
        sk = skips[0]
        a, b = sk.test.left.id, sk.test.comparators[0].id
        last = b if a == key else a if b == key else None
        upd = [n for n in loop.body if isinstance(n, ast.Assign) and len(n.targets) == 1 and isinstance(n.targets[0], ast.Name) and n.targets[0].id in (a, b)]
        rr.inst("dedup guard", True, {"stored_key": key, "guard": norm(sk.test, 40), "remembered": [norm(u, 40) for u in upd]})
        ok = last is not None and any(u.targets[0].id == last and isinstance(u.value, ast.Name) and u.value.id == key for u in upd)
        if not ok:
            rr.add(finding("PAIR", fi, sk, f"the guard `{norm(sk.test, 40)}` does not compare the row `{key}` that is stored in the list with the row remembered from the previous line: two different h-line values that land on the same screen row are both kept and the rendered graph has more rows than requested", construct="h-line de-duplication not keyed on the stored row"))
    if not found:
        raise AnalysisError("BarGraph.hlines_display: the loop that collects the h-line rows was not found")
    return rr


def rule_line_separator(ctx: Ctx) -> RuleResult:
    """The text layout starts a new row at "\n" and nowhere else (StandardTextLayout searches for the constant).
    Every other place that cuts widget text into lines to measure it (Text.pack for fixed sizing) has to use that
    same separator: str.splitlines() also breaks at \r \x0b \x0c \x1c-\x1e \x85 U+2028 U+2029, so the measured width
    is that of a fragment and render(()) - which lays the text out at the measured width - wraps the real line."""
    p = ctx.p
    rr = RuleResult("SIB", "C01.17", "widget text is cut into lines at the layout's separator only (\"\\n\"): no str.splitlines(), and split()/count() in one measurement use the same constant", floor=2)
    lay = p.func("urwid.text_layout.StandardTextLayout.calculate_text_segments")
    seps = {n.value for n in lay.own_nodes() if isinstance(n, ast.Constant) and isinstance(n.value, (str, bytes)) and n.value in ("\n", b"\n")}
    if "\n" not in seps:
        raise AnalysisError("StandardTextLayout.calculate_text_segments: the newline constant was not found")
    rr.inst("layout separator", True, {"layout": short(lay), "separators": sorted(repr(x) for x in seps)})
    for fi in p.functions.values():
        mn = fi.module.name
        if not (mn.startswith("urwid.widget") or mn in ("urwid.text_layout", "urwid.canvas", "urwid.util")):
            continue
        cuts = []
        for c in fi.own_nodes():
            if not (isinstance(c, ast.Call) and isinstance(c.func, ast.Attribute)):
                continue
            if c.func.attr == "splitlines":
                rr.inst(f"{short(fi)}:{norm(c, 40)}", True)
                rr.add(finding("SIB", fi, c, f"`{norm(c, 60)}` cuts the text at every Unicode line boundary (\\r, \\x0b, \\x0c, \\x85, U+2028 ...), the layout only at \"\\n\": a line containing one of these is measured as two shorter ones, so pack() reports a width at which the rendering needs more rows than pack() reports", construct=f"splitlines: {norm(c, 60)}"))
            elif c.func.attr in ("split", "count") and len(c.args) == 1 and isinstance(c.args[0], ast.Constant) and isinstance(c.args[0].value, (str, bytes)) and c.args[0].value in ("\n", b"\n", "\r\n", "\r"):
                cuts.append(c)
        if cuts:
            vals = {c.args[0].value for c in cuts}
            rr.inst(f"{short(fi)}: line cuts", True, {"function": short(fi), "cuts": [norm(c, 40) for c in cuts]})
            bad = [c for c in cuts if c.args[0].value not in seps]
            for c in bad:
                rr.add(finding("SIB", fi, c, f"`{norm(c, 60)}` uses {c.args[0].value!r} as line separator, the layout uses \"\\n\"", construct=f"other line separator: {norm(c, 60)}"))
    return rr


def rule_frame_trims(ctx: Ctx) -> RuleResult:
    """Frame.render() gets ((header trim, footer trim), (header rows, footer rows)) from frame_top_bottom() and draws a
    header / footer that has to be cut through a temporary Filler of exactly its own trim: the header's Filler gets
    the first element of the first pair, the footer's the second.  With the other part's trim (a copy-paste of the
    header block) the three parts no longer add up to maxrow."""
    p = ctx.p
    rr = RuleResult("SIB", "C01.18", "Frame.render cuts the header with the header's trim and the footer with the footer's trim (the unpacking order of frame_top_bottom())", floor=2)
    fi = p.func("urwid.widget.frame.Frame.render")
    role = {}
    for n in fi.own_nodes():
        if isinstance(n, ast.Assign) and isinstance(n.value, ast.Call) and callee_name(n.value) == "frame_top_bottom" and isinstance(n.targets[0], ast.Tuple) and len(n.targets[0].elts) == 2 and isinstance(n.targets[0].elts[0], ast.Tuple):
            trims = n.targets[0].elts[0].elts
            if len(trims) == 2 and all(isinstance(e, ast.Name) for e in trims):
                role = {"header": trims[0].id, "footer": trims[1].id}
    if not role:
        raise AnalysisError("Frame.render: the unpacking `(htrim, ftrim), (hrows, frows) = self.frame_top_bottom(...)` was not found")
    for c in fi.own_nodes():
        if not (isinstance(c, ast.Call) and isinstance(c.func, ast.Attribute) and c.func.attr == "render" and isinstance(c.func.value, ast.Call) and callee_name(c.func.value) == "Filler" and c.func.value.args):
            continue
        inner = ast.unparse(c.func.value.args[0])
        part = next((x for x in role if inner.endswith("." + x) or inner.endswith("._" + x)), None)
        if part is None or not c.args or not isinstance(c.args[0], ast.Tuple) or len(c.args[0].elts) != 2:
            continue
        rows = c.args[0].elts[1]
        ok = isinstance(rows, ast.Name) and rows.id == role[part]
        rr.inst(f"{part}: {norm(c, 50)}", True, {"part": part, "filler_rows": ast.unparse(rows), "own_trim": role[part]})
        if not ok:
            rr.add(finding("SIB", fi, c, f"the cut {part} is drawn through a Filler of `{ast.unparse(rows)}` rows instead of its own trim `{role[part]}`: when header trim and footer trim differ the parts of the frame add up to another height than maxrow (WidgetError 'rendered (20 x 1) canvas when passed size (20, 4)')", construct=f"{part} cut with {ast.unparse(rows)}"))
    return rr


def _shadow(ctx: Ctx):
    from ..rules import shadow

    return shadow.run_shadow(ctx.p, "C01.19", modules(ctx.p), floor=100, description="no `for` target in the widget / canvas / layout modules clobbers a local that is read after the loop with its earlier meaning")


def rule_overlay_position(ctx: Ctx) -> RuleResult:
    """CompositeCanvas.overlay(other, left, top) places `other` at (left, top) of the canvas it covers; it verifies
    that `other` does not stick out on the right / at the bottom but takes left and top as they come.  A negative
    position makes the middle rows wider than the rest (row widths 9, 11, 9 - before fix a7d4a9b Overlay.render passed
    the negative padding of a top widget wider than the screen).  Every position argument of CanvasOverlay() /
    .overlay() therefore is visibly non-negative: max(0, x), a non-negative constant, or a local that the function
    never tests / clamps against 0 (no `x < 0`, `min(0, x)`: nothing suggests it can be negative)."""
    p = ctx.p
    rr = RuleResult("NONNEG", "C01.21", "the position handed to CanvasOverlay() / CompositeCanvas.overlay() is clamped at 0 wherever the function itself treats it as possibly negative", floor=2)
    for fi in p.functions.values():
        if not fi.module.name.startswith("urwid."):
            continue
        for c in fi.own_nodes():
            if not isinstance(c, ast.Call):
                continue
            nm = callee_name(c)
            if nm == "CanvasOverlay" and len(c.args) >= 4:
                pos = c.args[2:4]
            elif nm == "overlay" and isinstance(c.func, ast.Attribute) and len(c.args) >= 3:
                pos = c.args[1:3]
            else:
                continue
            for a in pos:
                ident = f"{short(fi)}: {norm(c, 50)}: {norm(a, 20)}"
                why = None
                if isinstance(a, ast.Call) and callee_name(a) == "max" and any(isinstance(x, ast.Constant) and x.value == 0 for x in a.args):
                    why = "max(0, .)"
                elif isinstance(a, ast.Constant) and isinstance(a.value, int) and a.value >= 0:
                    why = "constant"
                elif isinstance(a, ast.Name):
                    neg = []
                    for x in fi.own_nodes():
                        if isinstance(x, ast.Compare) and len(x.ops) == 1 and isinstance(x.left, ast.Name) and x.left.id == a.id and isinstance(x.ops[0], (ast.Lt, ast.LtE)) and isinstance(x.comparators[0], ast.Constant) and x.comparators[0].value == 0:
                            neg.append(x)
                        elif isinstance(x, ast.Call) and callee_name(x) == "min" and any(isinstance(y, ast.Constant) and y.value == 0 for y in x.args) and any(isinstance(y, ast.Name) and y.id == a.id for y in x.args):
                            neg.append(x)
                    if not neg:
                        why = "never treated as negative here"
                    else:
                        rr.inst(ident, True)
                        rr.add(finding("NONNEG", fi, c, f"`{norm(c, 70)}` passes `{a.id}` as a position although {fi.name}() itself allows for `{a.id}` being negative (`{norm(neg[0], 40)}`): overlay() does not check left / top, the covered rows come out wider than the canvas", construct=f"possibly negative {a.id} as overlay position"))
                        continue
                else:
                    why = "expression"
                rr.inst(ident, True, {"call": f"{short(fi)}: {norm(c, 60)}", "position": norm(a, 30), "non_negative_by": why})
    return rr


def rule_inverse_percent(ctx: Ctx) -> RuleResult:
    """A widget with a relative size under fixed sizing derives its own total from the child's size: total = child *
    100 / percent.  pack() and the padding computation used by render() must arrive at the same total, so every such
    inversion in the widget layer rounds the same way - to the nearest column, `int(x * 100 / self.<..>_amount + 0.5)`
    (5 sites: Padding.pack, Padding.padding_values, Overlay.pack x3).  Before fix b429ef1 Padding.padding_values
    floored (`* 100 // amount`): pack(()) said 17 columns, render(()) produced 16."""
    p = ctx.p
    rr = RuleResult("SIB", "C01.22", "every inversion of a relative size (x * 100 / self.<width|height>_amount) rounds to the nearest cell, int(. + 0.5): pack() and render() agree on the total", floor=4)
    for fi in p.functions.values():
        if not fi.module.name.startswith("urwid.widget"):
            continue
        parents = None
        for b in fi.own_nodes():
            if not (isinstance(b, ast.BinOp) and isinstance(b.op, (ast.Div, ast.FloorDiv)) and isinstance(b.right, ast.Attribute) and b.right.attr.lstrip("_") in ("width_amount", "height_amount")):
                continue
            if not (isinstance(b.left, ast.BinOp) and isinstance(b.left.op, ast.Mult) and any(isinstance(x, ast.Constant) and x.value == 100 for x in (b.left.left, b.left.right))):
                continue
            if parents is None:
                parents = {id(ch): par for par in ast.walk(fi.node) for ch in ast.iter_child_nodes(par)}
            up = parents.get(id(b))
            nearest = isinstance(b.op, ast.Div) and isinstance(up, ast.BinOp) and isinstance(up.op, ast.Add) and any(isinstance(x, ast.Constant) and x.value == 0.5 for x in (up.left, up.right)) and isinstance(parents.get(id(up)), ast.Call) and callee_name(parents[id(up)]) == "int"
            ident = f"{short(fi)}: {norm(b, 60)}"
            rr.inst(ident, True, {"site": ident, "rounding": "nearest" if nearest else ("floor" if isinstance(b.op, ast.FloorDiv) else "other")})
            if not nearest:
                rr.add(finding("SIB", fi, b, f"`{norm(up if up is not None and not isinstance(b.op, ast.FloorDiv) else b, 70)}` inverts the relative size with another rounding than the other sites (int(x * 100 / amount + 0.5)): the total this method works with differs by one cell from the total pack() reports, the canvas is narrower / shorter than the size the widget states", construct=f"inverse percent not rounded to nearest: {norm(b, 50)}"))
    return rr


def rule_given_total(ctx: Ctx) -> RuleResult:
    """Padding under fixed sizing: pack(()) states the total, render(()) builds it from padding_values(()).  For each
    width type (given, pack, relative) both take the total from the same quantities: the first element pack() returns
    on that arm and the total (`... + left + right`) padding_values() computes on its unsized arm of the same type
    are the same linear form over the same sub-expressions.  Before fix a506415 pack() applied max(., min_width) to a
    given width and render() did not (pack 5, canvas 3); before fix d053bde the pack / relative arms applied
    min_width in pack() only: Padding(Text('ab'), 'center', ('relative', 50), min_width=10).pack(()) said 10
    columns, render(()) produced 2."""
    from ..rules.exc import ExcEngine

    p = ctx.p
    rr = RuleResult("SIB", "C01.28", "Padding.pack() and Padding.padding_values() compute the same unsized total for every width type", floor=3)
    kinds = ("GIVEN", "PACK", "RELATIVE")
    forms: dict[str, dict[str, tuple]] = {k: {} for k in kinds}
    for name in ("pack", "padding_values"):
        fi = p.func(f"urwid.widget.padding.Padding.{name}")
        du = DefUse(fi)
        cfg = du.cfg

        def tests_of(kind):
            return [t for t in cfg.nodes if t.kind == "test" and isinstance(t.ast, ast.Compare) and "_width_type" in ast.unparse(t.ast.left) and isinstance(t.ast.ops[0], ast.Eq) and ast.unparse(t.ast.comparators[0]).endswith(kind)]

        def on_arm(n, kind):
            return any(n not in ExcEngine._reach_without_edge(cfg, t, "T") for t in tests_of(kind))

        def total_form(e, at):
            L = linear(e)
            if L is None:
                return None
            out = {}
            for k, v in L.items():
                sub = None
                if k.isidentifier():
                    ds = [val for val, _h, _d in du.reaching(k, at) if isinstance(val, ast.AST)]
                    if len(ds) == 1 and linear(ds[0]) is not None and all(x.startswith("self.") for x in linear(ds[0])):
                        sub = linear(ds[0])  # `expand = self.left + self.right`
                for kk, vv in (sub or {k: 1}).items():
                    out[kk] = out.get(kk, 0) + v * vv
            return {k: v for k, v in out.items() if v}

        for n in cfg.nodes:
            e = None
            if name == "pack" and n.kind == "return" and isinstance(n.ast.value, ast.Tuple) and n.ast.value.elts:
                e = n.ast.value.elts[0]
            if name == "padding_values" and isinstance(n.ast, ast.Assign) and len(n.ast.targets) == 1 and isinstance(n.ast.targets[0], ast.Name):
                e = n.ast.value
            if e is None:
                continue
            L = total_form(e, n)
            if not L or L.get("self.left") != 1 or L.get("self.right") != 1:
                continue
            arm = next((k for k in kinds if on_arm(n, k)), None)
            if arm is None and name == "padding_values":
                arm = "RELATIVE"  # the remaining else-arm (clip is handled and left earlier)
            if arm is not None:
                forms[arm][name] = (fi, n, L)
    for kind in kinds:
        a, b = forms[kind].get("pack"), forms[kind].get("padding_values")
        if a is None or b is None:
            raise AnalysisError(f"Padding: the unsized total of the {kind} arm was not found in {'pack' if a is None else 'padding_values'}()")
        same = a[2] == b[2]
        rr.inst(f"Padding {kind.lower()} width", True, {"width_type": kind, "pack": lin_str(a[2]), "padding_values": lin_str(b[2]), "same": same})
        if not same:
            cons = "given-width total differs between pack and padding_values" if kind == "GIVEN" else f"{kind.lower()}-width total differs between pack and padding_values"
            rr.add(finding("SIB", a[0], a[1].stmt, f"pack(()) reports `{lin_str(a[2])}` columns for a {kind.lower()} width, render(()) pads to `{lin_str(b[2])}` (padding_values): the canvas is not as wide as the size the widget states - a container that trusts pack() lays the row out for another width", construct=cons))
    return rr


def rule_complementary_quantities(ctx: Ctx) -> RuleResult:
    """ListBox.calculate_visible() derives two complementary numbers from the position of the focus widget's bottom
    edge E = focus_rows + offset_rows - inset_rows - maxrow: the rows of the focus widget cut off at the bottom,
    trim_bottom = max(E, 0), and the rows still free below it, fill_lines = -E.  Both must be taken from the *same*
    state: no variable of E is reassigned on a path from one computation to the other (step 2 lowers offset_rows
    when the widgets above run out - a trim_bottom computed before that makes render() cut rows that are visible:
    'Listbox contents too short').  Generic form: X = max(E, 0) and Y = -E (as linear forms) in one function."""
    from ..rules.util import lin_str, linear

    p = ctx.p
    rr = RuleResult("SIB", "C01.25", "complementary quantities max(E, 0) and -E (rows cut off below / rows free below the focus) are computed from the same state: no variable of E is reassigned between the two", floor=1)
    for fi in p.functions.values():
        if fi.module.name != "urwid.widget.listbox" or fi.is_lambda:
            continue
        cfg = None
        maxes = []
        for n in fi.own_nodes():
            if isinstance(n, ast.Assign) and isinstance(n.value, ast.Call) and callee_name(n.value) == "max" and len(n.value.args) == 2:
                for a, b in (n.value.args, n.value.args[::-1]):
                    if isinstance(b, ast.Constant) and b.value == 0:
                        e = linear(a)
                        if e and len([k for k in e if k]) >= 3:
                            maxes.append((n, e))
        if not maxes:
            continue
        for n2 in fi.own_nodes():
            if not (isinstance(n2, ast.Assign) and not isinstance(n2.value, ast.Call)):
                continue
            e2 = linear(n2.value)
            if not e2:
                continue
            for n1, e1 in maxes:
                if e2 != {k: -v for k, v in e1.items()}:
                    continue
                cfg = cfg or cfg_of(fi)
                a = next((x for x in cfg.nodes if x.stmt is n1), None)
                b = next((x for x in cfg.nodes if x.stmt is n2), None)
                if a is None or b is None:
                    continue
                first, second = (a, b) if b in cfg.reachable([a]) else (b, a)
                names = {k for k in e1 if k}
                between = cfg.reachable([first], avoid=[second]) & {x for x in cfg.nodes if second in cfg.reachable([x])}
                writes = []
                for x in between:
                    if x is first or x.ast is None:
                        continue
                    st = x.ast
                    tg = []
                    if isinstance(st, ast.Assign):
                        tg = [t for t in st.targets]
                    elif isinstance(st, ast.AugAssign):
                        tg = [st.target]
                    for t in tg:
                        for nm in ast.walk(t):
                            if isinstance(nm, ast.Name) and nm.id in names:
                                writes.append(x)
                ident = f"{short(fi)}: {norm(n1, 40)} / {norm(n2, 40)}"
                rr.inst(ident, True, {"cut_off": norm(n1, 70), "free": norm(n2, 70), "E": lin_str(e1), "reassigned_in_between": [norm(w.stmt, 40) for w in writes]})
                if writes:
                    rr.add(finding("SIB", fi, n1 if first is a else n2, f"`{norm(first.stmt, 60)}` and `{norm(second.stmt, 60)}` are the two readings of the same edge position ({lin_str(e1)}), but `{norm(writes[0].stmt, 40)}` changes one of its variables between them: the rows cut off and the rows free below no longer describe the same layout - render() trims rows that are visible (ListBoxError 'Listbox contents too short') after the rows above the focus shrank", construct="complementary quantities computed from different states"))
    return rr


def _two_sided(ctx: Ctx) -> RuleResult:
    from . import c09

    return c09.rule_two_sided(ctx, "C01.27")


def rule_repeat_bound(ctx: Ctx) -> RuleResult:
    """BarGraph.calculate_bar_widths() answers with a list of bar widths whose sum must not exceed the columns it was
    given (the display rows are built from it and rendered as Text at exactly maxcol).  A result of the form
    `[w] * n` has sum w * n: n is the available width itself (for w == 1) or `min(.., maxcol // w)` - not the number
    of bars (more bars than columns: every display row would be wider than maxcol, render() raises)."""
    p = ctx.p
    rr = RuleResult("BOUND", "C01.26", "a width list built as [w] * n is bounded by the available columns: n is maxcol (w == 1) or min(.., maxcol // w)", floor=2)
    fi = p.func("urwid.widget.bar_graph.BarGraph.calculate_bar_widths")
    size_elems = set()
    for n in fi.own_nodes():
        if isinstance(n, ast.Assign) and isinstance(n.value, ast.Name) and n.value.id in fi.params and isinstance(n.targets[0], (ast.Tuple, ast.List)):
            size_elems |= {e.id for e in n.targets[0].elts if isinstance(e, ast.Name)}
    width = sorted(size_elems)[0] if size_elems else None
    first = next((e.id for n in fi.own_nodes() if isinstance(n, ast.Assign) and isinstance(n.value, ast.Name) and n.value.id in fi.params and isinstance(n.targets[0], (ast.Tuple, ast.List)) for e in n.targets[0].elts[:1] if isinstance(e, ast.Name)), None)
    if first is None:
        raise AnalysisError("calculate_bar_widths: the unpacking of size was not found")
    for r in [n for n in fi.own_nodes() if isinstance(n, ast.Return) and isinstance(n.value, ast.BinOp) and isinstance(n.value.op, ast.Mult)]:
        lst, cnt = (r.value.left, r.value.right) if isinstance(r.value.left, ast.List) else (r.value.right, r.value.left)
        if not (isinstance(lst, ast.List) and len(lst.elts) == 1):
            continue
        w = lst.elts[0]
        ok = False
        if isinstance(w, ast.Constant) and w.value == 1 and isinstance(cnt, ast.Name) and cnt.id == first:
            ok = True
        if isinstance(cnt, ast.Call) and callee_name(cnt) == "min":
            for a in cnt.args:
                if isinstance(a, ast.BinOp) and isinstance(a.op, ast.FloorDiv) and isinstance(a.left, ast.Name) and a.left.id == first and ast.unparse(a.right) == ast.unparse(w):
                    ok = True
        rr.inst(norm(r, 60), True, {"return": norm(r, 70), "width": ast.unparse(w), "count": ast.unparse(cnt), "bounded_by_available_columns": ok})
        if not ok:
            rr.add(finding("BOUND", fi, r, f"`{norm(r, 70)}` returns {ast.unparse(cnt)} bars of width {ast.unparse(w)}: nothing bounds their sum by `{first}` - with more bars than columns every display row is wider than the graph and render() raises BarGraphError for a valid size", construct=f"bar widths [{ast.unparse(w)}] * {ast.unparse(cnt)} not bounded by {first}"))
    return rr


def rule_trim_drops_cursor(ctx: Ctx) -> RuleResult:
    """'a cursor, if present, lies inside the canvas': the methods of CompositeCanvas that cut rows or columns away
    (they call shards_trim_top / shards_trim_rows / shards_trim_sides) move the cursor coordinates with the content;
    a cursor that ends up outside the remaining cells has to be dropped - every path from such a cut to the end of
    the method passes _drop_trimmed_cursor() (directly, or through a method of the class that does)."""
    p = ctx.p
    rr = RuleResult("PASS", "C01.20", "every CompositeCanvas method that cuts rows / columns away drops a cursor left outside the canvas", floor=3)
    C = p.cls("urwid.canvas.CompositeCanvas")
    drops = {"_drop_trimmed_cursor"}
    changed = True
    while changed:
        changed = False
        for name, fi in C.methods.items():
            if name in drops:
                continue
            cfg = cfg_of(fi)
            calls = nodes_where(cfg, lambda x: isinstance(x, ast.Call) and isinstance(x.func, ast.Attribute) and x.func.attr in drops and isinstance(x.func.value, ast.Name) and x.func.value.id == fi.self_name)
            if calls and cfg.exit not in cfg.reachable([cfg.entry], avoid=calls, include_start=True, labels=("n", "T", "F")):
                drops.add(name)
                changed = True
    for name, fi in sorted(C.methods.items()):
        cfg = cfg_of(fi)
        cuts = nodes_where(cfg, lambda x: isinstance(x, ast.Call) and isinstance(x.func, ast.Name) and x.func.id in ("shards_trim_top", "shards_trim_rows", "shards_trim_sides"))
        if not cuts:
            continue
        after = nodes_where(cfg, lambda x: isinstance(x, ast.Call) and isinstance(x.func, ast.Attribute) and x.func.attr in drops and isinstance(x.func.value, ast.Name) and x.func.value.id == fi.self_name)
        if name == "overlay":
            # overlay() cuts the *covered* canvas into the shards around the overlaid one and re-assembles all of them:
            # the canvas keeps its size, nothing is cut away from it
            rr.inst(f"{short(fi)}: re-assembly, not a cut", True)
            continue

        def controls(node):
            from ..rules.exc import ExcEngine

            return {(norm(t.ast, 60), lab) for t in cfg.nodes if t.kind == "test" for lab in ("T", "F") if node not in ExcEngine._reach_without_edge(cfg, t, lab)}

        for c in cuts:
            ok = bool(after) and cfg.must_pass(c, after, ends=[cfg.exit], labels=("n", "T", "F"))
            if not ok and after:
                # the drop is made under exactly the condition under which the cut was made (`if left < 0 or right < 0:`)
                ok = any(controls(a) == controls(c) and a in cfg.reachable([c]) for a in after)
            rr.inst(f"{short(fi)}:{norm(c.stmt, 40)}", True, {"method": short(fi), "cut": norm(c.stmt, 60), "cursor_dropped_afterwards": ok})
            if not ok:
                rr.add(finding("PASS", fi, c.stmt, f"after `{norm(c.stmt, 50)}` {name}() can finish without _drop_trimmed_cursor(): a cursor that was in the part cut away keeps its (shifted) coordinates and is reported outside the canvas - the display then puts the terminal cursor on an unrelated cell", construct=f"{name}: cut without dropping an outside cursor"))
    return rr


def run(ctx: Ctx):
    p = ctx.p
    mods = modules(p)
    return [
        dim.run_dim(p, "C01.1", mods, floor=100, exceptions=C01_DIM_EXCEPTIONS, description="no cols/rows confusion in sizes handed to children, canvas pad/trim calls and rows()/pack() results (all widget modules)"),
        kind.run_kind(p, "C01.3", mods, floor=40),
        rule_text_rows(ctx),
        rule_pad_to_fill(ctx),
        posbound.run_posbound(p, "C01.6", mods, floor=8),
        fresh.run_fresh(p, "C01.7", ["urwid.canvas"], floor=30),
        _apportion(ctx),
        fwd.run_fwd(p, "C01.9", ("urwid.widget",), floor=100, description="render(), rows() and pack() pass the focus flag on to the children they measure / draw, so the three agree on the size of the focused rendering"),
        _scroll_clamp(ctx),
        accum.run_accum(p, "C01.11", "C01", floor=2),
        rule_hline_dedup(ctx),
        loopfresh.run_loopfresh(p, "C01.13", "C01", floor=6),
        c03_segment_width(ctx),
        _scrollbar_parts(ctx),
        _segment_positive(ctx),
        rule_line_separator(ctx),
        rule_frame_trims(ctx),
        _shadow(ctx),
        rule_trim_drops_cursor(ctx),
        rule_overlay_position(ctx),
        rule_inverse_percent(ctx),
        rule_given_total(ctx),
        rule_adjust_both_ways(ctx),
        rule_size_index_guarded(ctx),
        rule_pad_segment_nonzero(ctx),
        rule_complementary_quantities(ctx),
        rule_repeat_bound(ctx),
        _two_sided(ctx),
        runpos.run_runpos(ctx.p, "C01.23", ("urwid.widget",), floor=7),
        memo.run_dict_memo(ctx.p, "C01.24", ("urwid",), floor=1),
    ]


_PILE = "urwid/widget/pile.py"
_COLS = "urwid/widget/columns.py"
_CANV = "urwid/canvas.py"
_TEXT = "urwid/widget/text.py"
MUTANTS = [
    Mut("twin-vscale-adjust-guard-ne", "urwid/widget/bar_graph.py", "GraphVScale.render", "        if maxrow - rows:", "        if maxrow != rows:", twin=True),
    Mut("twin-shift-line-amount-ne-zero", "urwid/text_layout.py", "shift_line", "    if amount:\n        return [(amount, None), *segs]", "    if amount != 0:\n        return [(amount, None), *segs]", twin=True),
    Mut("padding-pack-arm-total-without-min-width", "urwid/widget/padding.py", "Padding.padding_values", "                maxcol = max(width, self.min_width or 1) + self.left + self.right\n", "                maxcol = width + self.left + self.right\n", "SIB|widget.padding.Padding.pack|pack-width total differs between pack and padding_values"),
    Mut("padding-blank-width-from-size", "urwid/widget/padding.py", "Padding.render", "size[0] if size else self.pack(size, focus)[0]", "size[0]", "GUARD|widget.padding.Padding.render|render: size[0] without a size test"),
    Mut("padding-pack-given-min-width", "urwid/widget/padding.py", "Padding.pack", "                self._width_amount + expand,\n", "                max(self._width_amount, self.min_width or 1) + expand,\n", "SIB|widget.padding.Padding.pack|given-width total differs between pack and padding_values"),
    Mut("twin-padding-pack-given-spelled-out", "urwid/widget/padding.py", "Padding.pack", "                self._width_amount + expand,\n", "                self.right + self._width_amount + self.left,\n", twin=True),
    Mut("bargraph-one-width-per-bar", "urwid/widget/bar_graph.py", "BarGraph.calculate_bar_widths", "            return [1] * maxcol", "            return [1] * len(bardata)", "BOUND|widget.bar_graph.BarGraph.calculate_bar_widths|bar widths [1] * len(bardata) not bounded by maxcol"),
    Mut("listbox-trim-bottom-before-offset-final", "urwid/widget/listbox.py", "ListBox.calculate_visible", "        focus_rows = focus_widget.rows((maxcol,), True)\n\n        # items inside the window", "        focus_rows = focus_widget.rows((maxcol,), True)\n        trim_bottom = max(focus_rows + offset_rows - inset_rows - maxrow, 0)\n\n        # items inside the window", "SIB|widget.listbox.ListBox.calculate_visible|complementary quantities computed from different states", also=[("        trim_bottom = max(focus_rows + offset_rows - inset_rows - maxrow, 0)\n\n        # 3. collect", "        # 3. collect")]),
    Mut("font-glyph-cache-by-character-only", "urwid/font.py", "Font.render", "        key = (character, get_encoding())\n", "        key = character\n", "MEMO|font.Font.render|dict memo self.canvas ignores"),
    Mut("twin-font-cache-key-inline", "urwid/font.py", "Font.render", "        key = (character, get_encoding())\n", "        key = (get_encoding(), character)\n", twin=True),
    Mut("progressbar-empty-complete-run", "urwid/widget/progress_bar.py", "ProgressBar.render", "        elif ccol == 0:\n            # less than one column complete and no room for the smoothing character: no (empty) complete run\n            c._attr = [[(self.normal, maxcol)]]\n", "", "RUNPOS|widget.progress_bar.ProgressBar.render|run length ccol not shown positive"),
    Mut("progressbar-smooth-unguarded-run", "urwid/widget/progress_bar.py", "ProgressBar.render", "            if ccol > 0:\n                a.append((self.complete, ccol))\n", "            a.append((self.complete, ccol))\n", "RUNPOS|widget.progress_bar.ProgressBar.render|run length ccol not shown positive"),
    Mut("progressbar-full-test-off-by-one", "urwid/widget/progress_bar.py", "ProgressBar.render", "        elif ccol >= maxcol:", "        elif ccol > maxcol:", "RUNPOS|widget.progress_bar.ProgressBar.render|run length maxcol - ccol not shown positive"),
    Mut("twin-progressbar-positive-test", "urwid/widget/progress_bar.py", "ProgressBar.render", "        elif ccol == 0:\n", "        elif not ccol > 0:\n", twin=True),
    Mut("padding-relative-total-floored", "urwid/widget/padding.py", "Padding.padding_values", "max(int(width * 100 / self._width_amount + 0.5), self.min_width or 1)", "max(width * 100 // self._width_amount, self.min_width or 1)", "SIB|widget.padding.Padding.padding_values|inverse percent not rounded to nearest"),
    Mut("overlay-pack-relative-truncated", "urwid/widget/overlay.py", "Overlay.pack", "            cols = int(w_cols * 100 / self.width_amount + 0.5)", "            cols = int(w_cols * 100 / self.width_amount)", "SIB|widget.overlay.Overlay.pack|inverse percent not rounded to nearest"),
    Mut("overlay-negative-left-position", "urwid/widget/overlay.py", "Overlay.render", "        return CanvasOverlay(top_c, bottom_c, max(0, left), max(0, top))", "        return CanvasOverlay(top_c, bottom_c, left, top)", "NONNEG|widget.overlay.Overlay.render|possibly negative left as overlay position"),
    Mut("trim-end-keeps-outside-cursor", _CANV, "CompositeCanvas.trim_end", "        self.shards = shards_trim_rows(self.shards, self.rows() - end)\n        self._drop_trimmed_cursor()\n", "        self.shards = shards_trim_rows(self.shards, self.rows() - end)\n", "PASS|canvas.CompositeCanvas.trim_end"),
    Mut("side-trim-keeps-outside-cursor", _CANV, "CompositeCanvas.pad_trim_left_right", "        if left < 0 or right < 0:\n            self._drop_trimmed_cursor()\n", "", "PASS|canvas.CompositeCanvas.pad_trim_left_right"),
    Mut("frame-footer-cut-with-header-trim", "urwid/widget/frame.py", "Frame.render", "foot = Filler(self.footer, VAlign.BOTTOM).render((maxcol, ftrim), focus and self.focus_part == \"footer\")", "foot = Filler(self.footer, VAlign.BOTTOM).render((maxcol, htrim), focus and self.focus_part == \"footer\")", "SIB|widget.frame.Frame.render"),
    Mut("text-pack-splitlines", _TEXT, "Text.pack", 'text.split("\\n")', "text.splitlines()", "SIB|widget.text.Text.pack"),
    Mut("twin-text-pack-split-keyword", _TEXT, "Text.pack", 'text.split("\\n")', 'text.split(sep="\\n")', twin=True),
    Mut("hlines-dedup-on-float", "urwid/widget/bar_graph.py", "BarGraph.hlines_display", "            if i == last_i:\n                continue", "            if rh == last_i:\n                continue", "PAIR|widget.bar_graph.BarGraph.hlines_display"),
    Mut("pile-item-rows-from-width", _PILE, "Pile.get_item_rows", "w.pack((), focused)[1]", "w.pack((), focused)[0]", "DIM|widget.pile.Pile.get_item_rows"),
    Mut("pile-pad-sign-flipped", _PILE, "Pile.render", "out.pad_trim_top_bottom(0, size[1] - out.rows())", "out.pad_trim_top_bottom(0, out.rows() - size[1])", "PAIR|widget.pile.Pile.render"),
    Mut("columns-pad-by-rows", _COLS, "Columns.render", "canvas.pad_trim_left_right(0, size[0] - canvas.cols())", "canvas.pad_trim_left_right(0, size[0] - canvas.rows())", ("PAIR|widget.columns.Columns.render", "DIM|widget.columns.Columns.render")),
    Mut("join-pad-other-canvas", _CANV, "CanvasJoin", "pad_right = cols - canv.cols()", "pad_right = cols - joined_canvas.cols()", "PAIR|canvas.CanvasJoin", note="does not compile-time fail: joined_canvas is bound later; shape-only variant"),
    Mut("join-pad-sign", _CANV, "CanvasJoin", "composite_canvas.pad_trim_top_bottom(0, maxrow - rows)", "composite_canvas.pad_trim_top_bottom(0, rows - maxrow)", "PAIR|canvas.CanvasJoin"),
    Mut("text-rows-own-layout", _TEXT, "Text.rows", "return len(self.get_line_translation(maxcol))", "return len(self.layout.layout(self.text, maxcol, self._align_mode, self._wrap_mode))", "ORDER|widget.text.Text.rows"),
    Mut("text-render-width-mismatch", _TEXT, "Text.render", "return apply_text_layout(text, attr, trans, maxcol)", "return apply_text_layout(text, attr, trans, maxcol + 1)", "ORDER|widget.text.Text.render"),
    Mut("layout-skip-empty-line", _CANV, "apply_text_layout", "        line = []\n        linea = []", "        if not line_layout:\n            continue\n        line = []\n        linea = []", "ORDER|canvas.apply_text_layout"),
    Mut("frozenset-item-store", _PILE, "Pile.get_rows_sizes", "w_h_args: list[tuple[int, int] | tuple[int] | tuple[()]] = []", "w_h_args: list[tuple[int, int] | tuple[int] | tuple[()]] = []\n        self.contents[0][0].sizing()[0] = 1", "KIND|", note="item store on a frozenset"),
    Mut("scrollable-cursor-closed-bound", "urwid/widget/scrollable.py", "Scrollable.render", "if cursrow >= maxrow or cursrow < 0:", "if cursrow > maxrow or cursrow < 0:", "POSBOUND|widget.scrollable.Scrollable.render"),
    Mut("pad-bottom-shared-shards", _CANV, "CompositeCanvas.pad_trim_top_bottom", "            if orig_shards is self.shards:\n                self.shards = self.shards.copy()\n", "", "FRESHLIST|canvas.CompositeCanvas.pad_trim_top_bottom"),
    Mut("pad-right-shared-cviews", _CANV, "CompositeCanvas.pad_trim_left_right", "new_top_cviews = top_cviews.copy()", "new_top_cviews = top_cviews", "FRESHLIST|canvas.CompositeCanvas.pad_trim_left_right"),
    Mut("twin-pad-copy-via-list", _CANV, "CompositeCanvas.pad_trim_left_right", "new_top_cviews = top_cviews.copy()", "new_top_cviews = list(top_cviews)", twin=True),
    Mut("twin-pad-regrouped", _PILE, "Pile.render", "out.pad_trim_top_bottom(0, size[1] - out.rows())", "out.pad_trim_top_bottom(0, -(out.rows() - size[1]))", twin=True),
    Mut("twin-pad-via-local", _COLS, "Columns.render", "canvas.pad_trim_left_right(0, size[0] - canvas.cols())", "missing = size[0] - canvas.cols()\n            canvas.pad_trim_left_right(0, missing)", twin=True),
    Mut("twin-rows-via-local", _TEXT, "Text.rows", "return len(self.get_line_translation(maxcol))", "trans = self.get_line_translation(maxcol)\n        return len(trans)", twin=True),
]
