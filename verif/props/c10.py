"""C10 - the Edit widget behaves as a text-editor model."""

from __future__ import annotations

import ast

from ..core import Ctx, RuleResult, finding, short, walk_no_nested
from ..model import AnalysisError, norm
from ..mutants import Mut
from ..rules import accum, loopfresh, offstep, inv, prog, ret
from ..rules.defuse import DefUse
from ..rules.util import callee_name, cfg_of, nodes_where
from ..tables import INV_EXCEPTIONS

EXPLANATION = (
    "Decided (necessary structural conditions of C10): (1) WRITER: _edit_text is stored only by Edit.__init__ and set_edit_text, _edit_pos only by __init__ and set_edit_pos, where the "
    "stored value is min(max(pos, 0), len(self._edit_text)) by def-use; set_edit_text re-clamps the position through the edit_pos setter after replacing the text - so the offset is in "
    "[0, len] on every history, also for IntEdit / NumEdit / IntegerEdit / FloatEdit; (2) ORDER in set_edit_text: 'change' is emitted with the new text before the store, 'postchange' with "
    "the old text (bound before the store) after it, on every path; (3) INV for the Edit family's mutators and RET for its keypress family (unused keys come back unchanged); "
    "(4) character-boundary moves: on the left / right / backspace / delete branches the position handed to set_edit_pos and the slice bounds of the new text are results of "
    "move_prev_char / move_next_char; (5) every text replacement resets the remembered preferred column (set_edit_text reaches the edit_pos setter or a pref_col_maxcol reset on all paths); "
    "(7) cursor coordinates and click positions are computed on the same text the layout was built from (self.get_text()[0], i.e. the masked text when a mask is set); (6) ALPHABET: valid_char of the numeric variants admits a character only under a membership test in a finite alphabet (or equality with '-'), never a Unicode predicate."
    ' Added after seed round 3: (9) ACCUM on calc_coords / calc_line_pos; (10) OFFSTEP on the position functions (End/Home never return `offset +- 1`); (11) after set_edit_text(), which clamps the cursor, the cursor is not updated relative to self.edit_pos in the same statement sequence.'
    ' Round 4: (12) LOOPFRESH on calc_coords; (13) the row bounds of Edit.move_cursor_to_coords (C09.10); (14) the UTF-8 scan bound (C11.12).'
    ' Round-4 triage: (15) case-mapped alphabet tests are conjoined with isascii(), every accepting return of NumEdit.valid_char depends on the cursor position (nothing in front of a leading minus sign), validating regexes use fullmatch and re.ASCII with IGNORECASE; C10.6 now accepts any accepting return that is dominated by a bounding test (false alarm on the repaired valid_char corrected). Round 5: (16) column tests against the end of a layout segment are half-open.'
    ' Round 6: (17) shift_line: after an existing padding segment was folded into the amount every result is built from the line without that segment.'
    ' Round 7: (19) = C11.16 (character stepping consults within_double_byte() before answering for non-UTF-8 bytes) and (20) = C14.5 (emit calls every handler) are part of this check too.'
    " Round 8: (21) PAIR: a layout segment's declared columns are measured over its own offsets (C03.13)."
    ' (22) KIND: text typed into a bytes Edit is encoded with the target encoding, no fixed codec in edit.py besides the documented ascii conversion (fix 640ffad).'
)
NOT_DECIDED = "Equality with the reference editor: row moves, preferred-column arithmetic, clip-mode view shift, click-to-offset mapping, leading-zero trimming arithmetic of IntEdit/NumEdit."
ASSUMPTIONS = []

E = "urwid.widget.edit.Edit"
FAMILY = ["Edit", "IntEdit", "NumEdit", "IntegerEdit", "FloatEdit"]


def rule_writers(ctx: Ctx) -> RuleResult:
    p = ctx.p
    rr = RuleResult("WRITER", "C10.1", "_edit_text / _edit_pos have a single writer each; the position is clamped to [0, len(text)] where it is stored and re-clamped after every text replacement", floor=5)
    seen = set()
    for cname in FAMILY:
        cls = p.cls(cname)
        for attr, writers in (("_edit_text", {"__init__", "set_edit_text"}), ("_edit_pos", {"__init__", "set_edit_pos"})):
            for fi, _s, st in prog.attr_stores(p, cls, attr):
                ident = f"{short(fi)}:{norm(st, 60)}"
                if ident in seen:
                    continue
                seen.add(ident)
                rr.inst(ident, True, {"writer": short(fi), "store": norm(st, 60)} if len(rr.samples) < 6 else None)
                if fi.name not in writers or short(fi).split(".")[-2] != "Edit":
                    rr.add(finding("WRITER", fi, st, f"`{norm(st, 60)}` writes {attr} outside Edit.{' / Edit.'.join(sorted(writers))}: the clamp and the change signals are bypassed", construct=f"{attr} written by {fi.name}"))
                    continue
                if attr == "_edit_pos" and fi.name == "set_edit_pos":
                    du = DefUse(fi)
                    v = du.expand(st.value, du.node_of(st))
                    txt = ast.unparse(v)
                    prm = fi.params[1]
                    ok = txt in (f"min(max({prm}, 0), len(self._edit_text))", f"max(min({prm}, len(self._edit_text)), 0)", f"max(0, min({prm}, len(self._edit_text)))", f"min(len(self._edit_text), max({prm}, 0))", f"min(len(self._edit_text), max(0, {prm}))", f"min(max(0, {prm}), len(self._edit_text))")
                    rr.inst("clamp form", True, {"stored_value": txt})
                    if not ok:
                        rr.add(finding("WRITER", fi, st, f"set_edit_pos stores `{txt}`, which is not the position clamped to [0, len(self._edit_text)]: the cursor offset can leave the text", construct=f"_edit_pos stored unclamped: {txt}"))
    # set_edit_text re-clamps the position after the store
    se = p.func(f"{E}.set_edit_text")
    cfg = cfg_of(se)
    store = [n for n in cfg.nodes if isinstance(n.ast, ast.Assign) and any(isinstance(t, ast.Attribute) and t.attr == "_edit_text" for t in n.ast.targets)]
    if len(store) != 1:
        raise AnalysisError("set_edit_text: exactly one `self._edit_text = ...` store expected")
    reclamp = [n for n in cfg.nodes if isinstance(n.ast, ast.Assign) and any(isinstance(t, ast.Attribute) and t.attr == "edit_pos" for t in n.ast.targets)] + nodes_where(cfg, lambda x: isinstance(x, ast.Call) and callee_name(x) == "set_edit_pos")
    rr.inst("re-clamp after replacement", True, {"reclamp_sites": [norm(n.stmt, 60) for n in reclamp]})
    # a conditional clamp (`if self._edit_pos > len(text): self.edit_pos = len(text)`) is as good for the position:
    # paths may skip the setter only over the false edge of a test that compares the position with len(<new text>)
    cond = [n for n in cfg.nodes if n.kind == "test" and isinstance(n.ast, ast.Compare) and len(n.ast.ops) == 1 and isinstance(n.ast.ops[0], (ast.Gt, ast.GtE)) and "edit_pos" in ast.unparse(n.ast.left) and ast.unparse(n.ast.comparators[0]).startswith("len(")]
    skipping = set()
    work = [store[0]]
    while work:
        n = work.pop()
        for t, lab in n.succ:
            if lab == "e" or t in reclamp or t in skipping or (n in cond and lab == "F"):
                continue
            skipping.add(t)
            work.append(t)
    if not reclamp or cfg.exit in skipping:
        rr.add(finding("WRITER", se, store[0].stmt, "after `self._edit_text = text` a normal path reaches the end of set_edit_text() without passing the edit_pos setter: a position beyond the new, shorter text (or a stale preferred column) survives the replacement", construct="text replaced without re-clamping the position"))
    return rr


def rule_signal_order(ctx: Ctx) -> RuleResult:
    p = ctx.p
    rr = RuleResult("ORDER", "C10.2", "set_edit_text: emit 'change'(new) -> store -> emit 'postchange'(old), with old bound before the store, on every path", floor=4)
    se = p.func(f"{E}.set_edit_text")
    cfg = cfg_of(se)
    du = DefUse(se)

    def emits(name):
        return nodes_where(cfg, lambda x: isinstance(x, ast.Call) and callee_name(x) in ("_emit", "emit_signal") and any(isinstance(a, ast.Constant) and a.value == name for a in x.args))

    ch, pc = emits("change"), emits("postchange")
    store = [n for n in cfg.nodes if isinstance(n.ast, ast.Assign) and any(isinstance(t, ast.Attribute) and t.attr == "_edit_text" for t in n.ast.targets)]
    rr.inst("emits present", True, {"change": len(ch), "postchange": len(pc)})
    if len(ch) != 1 or len(pc) != 1 or len(store) != 1:
        rr.add(finding("ORDER", se, se.node, f"set_edit_text has {len(ch)} 'change' and {len(pc)} 'postchange' emissions and {len(store)} text stores (one each expected)", construct="signal emission counts"))
        return rr
    st = store[0]
    rr.inst("change before store", True)
    if not cfg.dominated(st, ch):
        rr.add(finding("ORDER", se, st.stmt, "the text is replaced on a path where 'change' was not emitted first", construct="store not dominated by 'change'"))
    if ch[0] in cfg.reachable([st]):
        rr.add(finding("ORDER", se, ch[0].stmt, "'change' is emitted after the text was already replaced", construct="'change' after the store"))
    rr.inst("postchange after store", True)
    if not cfg.dominated(pc[0], [st]):
        rr.add(finding("ORDER", se, pc[0].stmt, "'postchange' can be emitted before the text was replaced", construct="'postchange' before the store"))
    if not cfg.must_pass(st, pc, ends=[cfg.exit], labels=("n", "T", "F")):
        rr.add(finding("ORDER", se, st.stmt, "after the text was replaced a normal path ends without emitting 'postchange'", construct="'postchange' skipped"))
    # arguments: change carries the value stored; postchange carries a name bound to self._edit_text before the store
    def emit_arg(n, name):
        c = [x for x in walk_no_nested(n.ast) if isinstance(x, ast.Call) and callee_name(x) in ("_emit", "emit_signal") and any(isinstance(a, ast.Constant) and a.value == name for a in x.args)][0]
        return c.args[-1]

    rr.inst("signal arguments", True)
    new_arg = ast.unparse(emit_arg(ch[0], "change"))
    stored = ast.unparse(st.ast.value)
    if new_arg != stored:
        rr.add(finding("ORDER", se, ch[0].stmt, f"'change' is emitted with `{new_arg}` but `{stored}` is what gets stored", construct="'change' argument is not the new text"))
    oa = emit_arg(pc[0], "postchange")
    ok = False
    if isinstance(oa, ast.Name):
        u = du.unique_def(oa.id, pc[0])
        if u is not None and u[0] is not None and ast.unparse(u[0]) == "self._edit_text":
            dn = u[2]
            ok = st in cfg.reachable([dn]) and dn not in cfg.reachable([st])
    if not ok:
        rr.add(finding("ORDER", se, pc[0].stmt, f"'postchange' is emitted with `{ast.unparse(oa)}`, which is not a name bound to self._edit_text before the store: handlers do not receive the old text", construct="'postchange' argument is not the old text"))
    return rr


def rule_clamped_cursor_read(ctx: Ctx) -> RuleResult:
    """set_edit_text() clamps the cursor to the new text (edit_pos = min(edit_pos, len(text))).  A cursor update
    written *relative to self.edit_pos* that comes after set_edit_text() in the same statement sequence therefore
    starts from a value that may already have been pulled back: the cursor moves twice.  After set_edit_text() the
    cursor is set from a position computed before the call (a local), as insert_text/backspace do."""
    p = ctx.p
    rr = RuleResult("ORDER", "C10.11", "after set_edit_text() (which clamps the cursor) the cursor is not updated relative to self.edit_pos in the same statement sequence", floor=4)
    for C in [c for c in p.classes.values() if c.name in FAMILY and c.module.name.startswith("urwid.widget")]:
        for fi in C.methods.values():
            for blk_owner in ast.walk(fi.node):
                for fld in ("body", "orelse", "finalbody"):
                    blk = getattr(blk_owner, fld, None)
                    if not isinstance(blk, list):
                        continue
                    seen_set_text = None
                    for st in blk:
                        calls = [c for c in ast.walk(st) if isinstance(c, ast.Call) and isinstance(c.func, ast.Attribute)] if isinstance(st, (ast.Expr, ast.Assign)) else []
                        for c in calls:
                            if c.func.attr == "set_edit_text":
                                seen_set_text = c
                        if seen_set_text is None:
                            continue
                        upd = None
                        if isinstance(st, ast.Expr) and isinstance(st.value, ast.Call) and isinstance(st.value.func, ast.Attribute) and st.value.func.attr == "set_edit_pos" and st.value.args:
                            upd = st.value.args[0]
                        elif isinstance(st, ast.Assign) and any(isinstance(t, ast.Attribute) and t.attr == "edit_pos" for t in st.targets):
                            upd = st.value
                        if upd is None:
                            continue
                        rr.inst(f"{short(fi)}:{norm(st, 50)}", True, {"function": short(fi), "after_set_edit_text": norm(st, 60)})
                        if any(isinstance(x, ast.Attribute) and x.attr == "edit_pos" and isinstance(x.ctx, ast.Load) for x in ast.walk(upd)):
                            rr.add(finding("ORDER", fi, st, f"`{norm(st, 60)}` computes the new cursor from self.edit_pos after `{norm(seen_set_text, 40)}` may already have clamped it to the shorter text: with the cursor at the end it moves two places per removed character", construct=f"cursor updated relative to the clamped position: {norm(st, 60)}"))
    return rr


def rule_char_moves(ctx: Ctx) -> RuleResult:
    p = ctx.p
    rr = RuleResult("WRITER", "C10.4", "Edit.keypress: positions and slice bounds on the left/right/backspace/delete branches come from move_prev_char / move_next_char", floor=4)
    kp = p.func(f"{E}.keypress")
    du = DefUse(kp)
    cfg = du.cfg

    def from_move(e, at) -> str | None:
        x = du.expand(e, at)
        if isinstance(x, ast.Call) and callee_name(x) in ("move_prev_char", "move_next_char"):
            return callee_name(x)
        return None

    sites = 0
    for c in kp.own_nodes():
        if isinstance(c, ast.Call) and callee_name(c) == "set_edit_pos" and c.args:
            at = du.node_of(c)
            mv = from_move(c.args[0], at)
            sites += 1
            rr.inst(f"set_edit_pos:{norm(c, 40)}@{c.lineno - kp.node.lineno}", True, {"call": norm(c, 50), "position_from": mv} if len(rr.samples) < 6 else None)
            if mv is None:
                rr.add(finding("WRITER", kp, c, f"`{norm(c, 50)}`: the new position `{du.text(c.args[0], at)}` is not the result of move_prev_char / move_next_char - a cursor move by arithmetic can land inside a multi-byte or combining character", construct=f"position not from a character move: {norm(c, 50)}"))
        if isinstance(c, ast.Call) and callee_name(c) == "set_edit_text" and c.args and isinstance(c.args[0], ast.BinOp):
            at = du.node_of(c)
            bounds = [s for s in ast.walk(c.args[0]) if isinstance(s, ast.Subscript) and isinstance(s.slice, ast.Slice)]
            okb = 0
            for b in bounds:
                for e in (b.slice.lower, b.slice.upper):
                    if e is None:
                        continue
                    t = ast.unparse(e)
                    if t in ("self.edit_pos", "self._edit_pos"):
                        okb += 1  # the current position is a character boundary by induction
                    elif from_move(e, at):
                        okb += 1
                    else:
                        rr.add(finding("WRITER", kp, c, f"`{norm(c, 70)}`: slice bound `{t}` is neither the current position nor a move_prev_char / move_next_char result - part of a character can be cut", construct=f"slice bound {t} not a character boundary"))
            sites += 1
            rr.inst(f"set_edit_text:{norm(c, 40)}", True, {"call": norm(c, 70), "bounds_ok": okb})
    if sites < 4:
        raise AnalysisError(f"Edit.keypress: only {sites} position/slice sites found (4 confirmed by hand)")
    return rr


def rule_pref_col_reset(ctx: Ctx) -> RuleResult:
    p = ctx.p
    rr = RuleResult("PASS", "C10.5", "replacing the text always resets the remembered preferred column", floor=2)
    se = p.func(f"{E}.set_edit_text")
    sp = p.func(f"{E}.set_edit_pos")
    for fi, what in ((sp, "set_edit_pos"),):
        cfg = cfg_of(fi)
        resets = [n for n in cfg.nodes if isinstance(n.ast, ast.Assign) and any(isinstance(t, ast.Attribute) and t.attr == "pref_col_maxcol" for t in n.ast.targets) and ast.unparse(n.ast.value).replace("(", "").replace(")", "") == "None, None"]
        rr.inst(f"{what} resets pref_col", True, {"function": what, "resets": len(resets)})
        if not resets or not cfg.must_pass(cfg.entry, resets, ends=[cfg.exit], labels=("n", "T", "F")):
            rr.add(finding("PASS", fi, fi.node, f"{what}() does not reset pref_col_maxcol on every path: a later up/down uses a column remembered for a previous cursor position", construct=f"{what} without pref_col reset"))
    cfg = cfg_of(se)
    store = [n for n in cfg.nodes if isinstance(n.ast, ast.Assign) and any(isinstance(t, ast.Attribute) and t.attr == "_edit_text" for t in n.ast.targets)]
    resets = [n for n in cfg.nodes if isinstance(n.ast, ast.Assign) and any(isinstance(t, ast.Attribute) and t.attr in ("pref_col_maxcol", "edit_pos") for t in n.ast.targets)] + nodes_where(cfg, lambda x: isinstance(x, ast.Call) and callee_name(x) == "set_edit_pos")
    rr.inst("set_edit_text resets pref_col", True)
    if store and (not resets or not cfg.must_pass(store[0], resets, ends=[cfg.exit], labels=("n", "T", "F"))):
        rr.add(finding("PASS", se, store[0].stmt, "set_edit_text() can finish without resetting the preferred column (neither through the edit_pos setter nor directly): after delete the next up/down jumps to a stale column", construct="text replaced without pref_col reset"))
    return rr


UNICODE_PREDICATES = {"isdigit", "isnumeric", "isdecimal", "isalnum", "isalpha", "isprintable"}


def rule_alphabet(ctx: Ctx) -> RuleResult:
    p = ctx.p
    rr = RuleResult("ALPHABET", "C10.6", "valid_char of the numeric Edit variants admits a character only under membership in a finite alphabet (or equality with '-')", floor=2)
    for q in ("urwid.widget.edit.IntEdit.valid_char", "urwid.numedit.NumEdit.valid_char"):
        fi = p.func(q)
        ch = fi.params[1]
        cfg = cfg_of(fi)

        def bounded(e) -> bool:
            """the expression can only be true if ch passed a membership / equality test"""
            if isinstance(e, ast.BoolOp) and isinstance(e.op, ast.And):
                return any(bounded(v) for v in e.values)
            if isinstance(e, ast.BoolOp) and isinstance(e.op, ast.Or):
                return all(bounded(v) for v in e.values)
            if isinstance(e, ast.Compare) and len(e.ops) == 1:
                l = e.left
                base = l.func.value if isinstance(l, ast.Call) and isinstance(l.func, ast.Attribute) and l.func.attr in ("upper", "lower") else l
                if isinstance(base, ast.Name) and base.id == ch:
                    if isinstance(e.ops[0], ast.In):
                        return True
                    if isinstance(e.ops[0], ast.Eq) and isinstance(e.comparators[0], ast.Constant):
                        return True
            if isinstance(e, ast.Constant) and not e.value:
                return True
            return False

        for r in [n for n in fi.own_nodes() if isinstance(n, ast.Return)]:
            ident = f"{short(fi)}:{norm(r, 60)}"
            rr.inst(ident, True, {"function": short(fi), "return": norm(r, 70)})
            v = r.value
            used = {x.func.attr for x in ast.walk(v) if isinstance(x, ast.Call) and isinstance(x.func, ast.Attribute) and x.func.attr in UNICODE_PREDICATES and isinstance(x.func.value, ast.Name) and x.func.value.id == ch} if v is not None else set()
            ok = v is None or bounded(v)
            if not ok:
                # an accepting return (`return True`, `return <further condition>`) must be dominated by a bounding test's true edge
                rn = nodes_where(cfg, lambda x: x is r)
                tests = [n for n in cfg.nodes if n.kind == "test" and bounded(n.ast)]
                ok = any(all(x in cfg.reachable_from_edges([(t, "T")]) and x not in cfg.reachable_from_edges([(t, "F")], avoid=[]) or False for x in rn) for t in tests)
                if not ok:
                    from ..rules.exc import ExcEngine

                    ok = any(all(x not in ExcEngine._reach_without_edge(cfg, t, "T") for x in rn) for t in tests)
            if not ok:
                extra = f" (it relies on the Unicode predicate ch.{'/'.join(sorted(used))}(), true for many non-ASCII characters)" if used else ""
                rr.add(finding("ALPHABET", fi, r, f"`{norm(r, 70)}` can accept a character without a membership test in a finite alphabet{extra}: characters outside the allowed alphabet enter the edit text", construct=f"unbounded accept: {norm(r, 70)}"))
    return rr


def rule_same_text(ctx: Ctx) -> RuleResult:
    """Edit lays out get_text() (caption + edit text, or the mask characters).  Offsets of that layout only mean
    something on the very text that was laid out: every calc_coords / calc_pos call must be given self.get_text()[0]."""
    p = ctx.p
    rr = RuleResult("SIB", "C10.7", "Edit measures cursor coordinates / positions on the same text its layout was computed from (self.get_text()[0])", floor=2)
    cls = p.cls(E)
    n = 0
    for fi in p.all_class_functions(cls):
        du = None
        for c in fi.own_nodes():
            if isinstance(c, ast.Call) and callee_name(c) in ("calc_coords", "calc_pos") and len(c.args) >= 2:
                du = du or DefUse(fi)
                at = du.node_of(c)
                txt = ast.unparse(du.expand(c.args[0], at)) if at is not None else ast.unparse(c.args[0])
                n += 1
                rr.inst(f"{short(fi)}:{norm(c, 50)}", True, {"function": short(fi), "call": norm(c, 60), "text_argument": txt})
                if txt not in ("self.get_text()[0]",):
                    rr.add(finding("SIB", fi, c, f"`{norm(c, 60)}` applies the layout to `{txt}`, not to self.get_text()[0] - the text the layout was computed from: with a mask (or any display text that differs from caption + edit_text) column widths are measured on other characters and the cursor is drawn in the wrong cell", construct=f"layout applied to {txt}"))
    if n < 2:
        raise AnalysisError("Edit: calc_coords / calc_pos calls not found")
    return rr


def rule_typed_text_encoding(ctx: Ctx) -> RuleResult:
    """A bytes Edit holds text in the *target* encoding (that is what str_util's byte mode steps and measures by).  A
    character typed into it is therefore encoded with util.get_encoding(): a literal codec name in edit.py's
    .encode() calls is right only for 'ascii' (the documented implicit conversion of _normalize_to_caption).  Before
    fix 640ffad keypress() used .encode('utf-8'): under euc-jp a typed kanji went in as three UTF-8 bytes and 'left'
    stopped inside them (two of the bytes were taken for one double-byte character)."""
    p = ctx.p
    rr = RuleResult("KIND", "C10.22", "text typed into a bytes Edit is encoded with the target encoding, not with a fixed codec", floor=2)
    for fi in p.functions.values():
        if fi.module.name != "urwid.widget.edit" or fi.is_lambda:
            continue
        for c in fi.own_nodes():
            if not (isinstance(c, ast.Call) and isinstance(c.func, ast.Attribute) and c.func.attr in ("encode", "decode") and c.args):
                continue
            a = c.args[0]
            lit = a.value if isinstance(a, ast.Constant) and isinstance(a.value, str) else None
            ok = lit is None or lit.lower() == "ascii"
            rr.inst(f"{short(fi)}: {norm(c, 40)}", True, {"site": f"{short(fi)}: {norm(c, 50)}", "codec": lit or ast.unparse(a)})
            if not ok:
                rr.add(finding("KIND", fi, c, f"`{norm(c, 50)}` converts edit text with the fixed codec {lit!r}: byte text in an Edit is in the target encoding (set_encoding), so under any other encoding the bytes inserted are not characters of that encoding - cursor movement and widths treat them as something else", construct=f"{fi.name}: fixed codec {lit} for edit text"))
    return rr


def _segment_width(ctx: Ctx):
    """a click, 'end' and up/down with a preferred column are mapped to an offset through the columns each layout
    segment declares (calc_line_pos): a segment that declares fewer columns than its text occupies sends the cursor to
    the character before the one shown in that cell (C03.13, seed C10-r8a)"""
    from . import c03

    return c03.rule_segment_width(ctx, "C10.21")


def _utf8_bound(ctx: Ctx):
    """right / delete step with move_next_char, left / backspace with move_prev_char: the two must cover whole characters"""
    from . import c11

    return c11.rule_utf8_scan_bound(ctx, "C10.14")


def _row_range(ctx: Ctx):
    """`up` on the first edit row must come back unhandled: the row bounds of Edit.move_cursor_to_coords (C09.10)"""
    from . import c09

    return c09.rule_edit_row_range(ctx, "C10.13")


def rule_alphabet_strict(ctx: Ctx) -> RuleResult:
    """Three refinements of 'never holds a character outside the allowed alphabet, apart from a single leading
    minus sign':
    (a) a membership test made on the case-mapped character (`ch.upper() in allowed`) admits every character whose
        mapping lands in the alphabet - 'ı'.upper() == 'I', 'ſ'.upper() == 'S' - unless it is conjoined with
        ch.isascii();
    (b) in NumEdit.valid_char every accepting return depends on the cursor position: with a minus sign at the front
        a character typed at position 0 would go in front of it;
    (c) a regular expression that validates an initial value is applied with fullmatch (a trailing `$` lets a final
        newline through) and, when it ignores case, with re.ASCII (Unicode IGNORECASE makes [A-Z] match 'ı' / 'ſ')."""
    from ..rules.defuse import DefUse

    p = ctx.p
    rr = RuleResult("ALPHABET", "C10.15", "case-mapped alphabet tests are ASCII-only; NumEdit accepts nothing in front of a leading minus sign; validating regexes use fullmatch (+ re.ASCII with IGNORECASE)", floor=4)
    mods = ("urwid.numedit", "urwid.widget.edit")
    for fi in p.functions.values():
        if fi.module.name not in mods:
            continue
        for n in fi.own_nodes():
            # (a)
            if isinstance(n, ast.Compare) and len(n.ops) == 1 and isinstance(n.ops[0], ast.In) and isinstance(n.left, ast.Call) and isinstance(n.left.func, ast.Attribute) and n.left.func.attr in ("upper", "lower", "casefold") and isinstance(n.left.func.value, ast.Name):
                ch = n.left.func.value.id
                # the enclosing `and` must contain ch.isascii()
                guarded = False
                for b in fi.own_nodes():
                    if isinstance(b, ast.BoolOp) and isinstance(b.op, ast.And) and any(v is n for v in b.values):
                        guarded = any(isinstance(v, ast.Call) and isinstance(v.func, ast.Attribute) and v.func.attr == "isascii" and isinstance(v.func.value, ast.Name) and v.func.value.id == ch for v in b.values)
                rr.inst(f"{short(fi)}:{norm(n, 50)}", True, {"function": short(fi), "test": norm(n, 60), "ascii_only": guarded})
                if not guarded:
                    rr.add(finding("ALPHABET", fi, n, f"`{norm(n, 60)}` tests the case-mapped character: str.{n.left.func.attr}() maps non-ASCII letters onto ASCII ones ('ı' -> 'I', 'ſ' -> 'S', 'K' -> 'k'), so for an alphabet containing those letters a character outside the alphabet is accepted and stored", construct=f"case-mapped membership without isascii(): {norm(n, 60)}"))
            # (c)
            if isinstance(n, ast.Call) and isinstance(n.func, ast.Attribute) and isinstance(n.func.value, ast.Name) and n.func.value.id == "re" and n.func.attr in ("match", "search", "fullmatch"):
                flags = ast.unparse(n.args[2]) if len(n.args) > 2 else next((ast.unparse(k.value) for k in n.keywords if k.arg == "flags"), "")
                icase = "IGNORECASE" in flags or "re.I" in flags.split("|")
                ascii_ = "ASCII" in flags
                ok = n.func.attr == "fullmatch" and (not icase or ascii_)
                rr.inst(f"{short(fi)}:{norm(n, 50)}", True, {"function": short(fi), "call": norm(n, 70), "ok": ok})
                if n.func.attr != "fullmatch":
                    rr.add(finding("ALPHABET", fi, n, f"`{norm(n, 70)}` validates with re.{n.func.attr}(): a pattern anchored with `$` also matches before a trailing newline, so 'digits\\n' passes and the newline ends up in the edit text; use re.fullmatch", construct=f"validation with re.{n.func.attr}"))
                elif icase and not ascii_:
                    rr.add(finding("ALPHABET", fi, n, f"`{norm(n, 70)}` ignores case in Unicode mode: [A-Z] then also matches 'ı' (U+0131), 'ſ' (U+017F) and 'K' (U+212A), which are not in the alphabet", construct="IGNORECASE validation without re.ASCII"))
    # (b)
    vc = p.func("urwid.numedit.NumEdit.valid_char")
    du = DefUse(vc)
    for r in [n for n in vc.own_nodes() if isinstance(n, ast.Return) and n.value is not None]:
        if isinstance(r.value, ast.Constant) and r.value.value is False:
            continue
        at = du.node_of(r)
        txt = ast.unparse(du.expand(r.value, at)) if at is not None else ast.unparse(r.value)
        dep = "edit_pos" in txt
        rr.inst(f"valid_char:{norm(r, 40)}", True, {"return": norm(r, 70), "depends_on_edit_pos": dep})
        if not dep:
            rr.add(finding("ALPHABET", vc, r, f"`{norm(r, 60)}` accepts a character whatever the cursor position: with a leading minus sign in the text a digit typed at position 0 is inserted in front of it ('-', '5', home, '3' gives '3-5') - the minus sign is no longer leading", construct=f"accepting return independent of edit_pos: {norm(r, 60)}"))
    return rr


def rule_segment_half_open(ctx: Ctx) -> RuleResult:
    """A layout segment that starts at screen column c and is w columns wide covers the columns c .. c + w - 1.
    A column test against the segment's end has to be half-open (`col < c + s.sc`): with `<=` the column just
    after the segment is still attributed to it, which is only harmless when an end-of-row hint follows - on a
    wrapped row that ends one cell short (a double-width character pushed down) the cursor is put at the first
    offset of the *next* row."""
    from ..rules.util import linear

    p = ctx.p
    rr = RuleResult("POSBOUND", "C10.16", "a column is tested against the end of a layout segment (start + s.sc) half-open: `<` / `>=`, never `<=` / `>`", floor=1)
    m = p.modules["urwid.text_layout"]
    for fi in m.functions:
        for c in fi.own_nodes():
            if not isinstance(c, ast.Compare):
                continue
            items = [c.left, *c.comparators]
            for a, op, b in zip(items, c.ops, items[1:]):
                if not isinstance(op, (ast.Lt, ast.LtE, ast.Gt, ast.GtE)):
                    continue
                for end, col, end_right in ((b, a, True), (a, b, False)):
                    L = linear(end)
                    if not L or len([k for k in L if k]) < 2 or not any(k.endswith(".sc") and v == 1 for k, v in L.items()):
                        continue
                    # col OP end (end on the right) must be `<` or `>=`; end OP col must be `>` or `<=`
                    ok = isinstance(op, (ast.Lt, ast.GtE)) if end_right else isinstance(op, (ast.Gt, ast.LtE))
                    txt = ast.unparse(ast.Compare(left=a, ops=[op], comparators=[b]))
                    rr.inst(f"{short(fi)}:{txt}", True, {"function": short(fi), "comparison": txt, "half_open": ok})
                    if not ok:
                        rr.add(finding("POSBOUND", fi, c, f"`{txt}` treats the column just after a segment (start + width) as part of it: on a wrapped row that ends one cell short of the width - a double-width character that did not fit - `up` / `down` with the preferred column on that last cell, or a click on it, lands on the first offset of the next row", construct=f"closed segment end: {txt}"))
    return rr


from ..tables import INV_RENDER_EXCEPTIONS as _INV_RENDER_EXC  # noqa: E402


def _shared(ctx: Ctx):
    """Two clauses of neighbouring properties that the editor model needs as well: cursor keys step over whole
    characters in the double-byte encodings only if move_prev_char / move_next_char consult within_double_byte()
    before they answer (C11.16), and every 'change' / 'postchange' listener hears about a modification only if emit()
    calls every handler (C14.5)."""
    from . import c11, c14

    a = c11.rule_dbe_consulted(ctx)
    a.clause = "C10.19"
    b = c14.rule_emit_total(ctx)
    b.clause = "C10.20"
    return [a, b]


def rule_shift_fold(ctx: Ctx) -> RuleResult:
    """Edit scrolls the cursor row with shift_line(line, amount).  A line that already starts with a padding segment
    (n, None) gets that padding *folded* into the amount (`amount += segs[0][0]`): from then on the old padding is
    accounted for in `amount` and must not be part of any result - every return reachable from the fold builds its
    value from the line without its first segment (`segs[1:]`), also when the sum is 0 (shift cancels the padding:
    right-aligned Edit whose text just fills the row - the cursor would be reported at x == maxcol)."""
    from ..rules.defuse import DefUse

    p = ctx.p
    rr = RuleResult("PASS", "C10.17", "shift_line: once an existing padding segment is folded into the amount, no result still contains that segment", floor=2)
    fi = p.func("urwid.text_layout.shift_line")
    du = DefUse(fi)
    cfg = du.cfg
    segs = fi.params[0]
    folds = [n for n in cfg.nodes if isinstance(n.ast, ast.AugAssign) and isinstance(n.ast.op, ast.Add) and any(isinstance(x, ast.Subscript) and isinstance(x.value, ast.Subscript) and isinstance(x.value.value, ast.Name) and x.value.value.id == segs for x in ast.walk(n.ast.value))]
    if not folds:
        raise AnalysisError("shift_line: the statement folding the existing padding into the amount (`amount += segs[0][0]`) was not found")
    for f in folds:
        for r in [n for n in cfg.reachable([f], labels=("n", "T", "F")) if n.kind == "return" and n.ast.value is not None]:
            val = du.expand(r.ast.value, r)
            txt = ast.unparse(val)
            # every mention of the line in the result is the tail `segs[1:]`
            whole = [x for x in ast.walk(val) if isinstance(x, ast.Name) and x.id == segs]
            tails = [x for x in ast.walk(val) if isinstance(x, ast.Subscript) and isinstance(x.value, ast.Name) and x.value.id == segs and isinstance(x.slice, ast.Slice) and isinstance(x.slice.lower, ast.Constant) and x.slice.lower.value == 1 and x.slice.upper is None]
            ok = bool(whole) and len(whole) == len(tails)
            rr.inst(f"return {norm(r.ast.value, 40)}", True, {"return": norm(r.ast, 60), "value": txt[:80], "old_padding_dropped": ok})
            if not ok:
                rr.add(finding("PASS", fi, r.ast, f"`{norm(r.ast, 60)}` is reachable after the existing padding was folded into the amount (`{norm(f.ast, 40)}`) but returns the line with its first segment (value `{txt[:60]}`): the old padding is applied on top of the amount that already contains it - when the shift cancels the padding exactly the row comes back unchanged and the cursor of a right- / centre-aligned Edit lands outside the widget", construct="folded padding segment kept in the result"))
    return rr


def run(ctx: Ctx):
    p = ctx.p
    return [
        rule_writers(ctx),
        rule_signal_order(ctx),
        inv.run_inv(p, "C10.3a", floor_classes=5, floor_nontrivial=5, exceptions=INV_EXCEPTIONS, only_classes=set(FAMILY)),
        ret.run_ret(p, "C10.3b", floor=3, only_classes=["Edit"]),
        inv.run_inv_render_write(p, "C10.18", floor=1, exceptions=_INV_RENDER_EXC, only_classes=set(FAMILY)),
        rule_char_moves(ctx),
        rule_pref_col_reset(ctx),
        rule_alphabet(ctx),
        rule_alphabet_strict(ctx),
        rule_segment_half_open(ctx),
        rule_same_text(ctx),
        rule_clamped_cursor_read(ctx),
        rule_shift_fold(ctx),
        *_shared(ctx),
        _row_range(ctx),
        _utf8_bound(ctx),
        loopfresh.run_loopfresh(p, "C10.12", "C10", floor=1),
        accum.run_accum(p, "C10.9", "C10", floor=3),
        offstep.run_offstep(p, "C10.10", ["urwid.text_layout.calc_line_pos", "urwid.text_layout.calc_pos", "urwid.text_layout.calc_coords"], floor=0),
        _segment_width(ctx),
        rule_typed_text_encoding(ctx),
    ]


_F = "urwid/widget/edit.py"
_N = "urwid/numedit.py"
MUTANTS = [
    Mut("twin-typed-text-encode-keywords", "urwid/widget/edit.py", "Edit.keypress", "key = key.encode(get_encoding(), \"replace\")", "key = key.encode(encoding=get_encoding(), errors=\"replace\")", twin=True),
    Mut("bytes-edit-inserts-utf8", "urwid/widget/edit.py", "Edit.keypress", "key = key.encode(get_encoding(), \"replace\")", "key = key.encode(\"utf-8\")", "KIND|widget.edit.Edit.keypress|keypress: fixed codec utf-8 for edit text"),
    Mut("shift-line-keeps-cancelled-padding", "urwid/text_layout.py", "shift_line", "        if amount:\n            return [(amount, None)] + segs[1:]\n        return segs[1:]\n", "        if amount:\n            segs = segs[1:]\n", "PASS|text_layout.shift_line|folded padding segment kept in the result"),
    Mut("twin-shift-line-tail-variable", "urwid/text_layout.py", "shift_line", "        if amount:\n            return [(amount, None)] + segs[1:]\n        return segs[1:]\n", "        rest = segs[1:]\n        if amount:\n            return [(amount, None), *rest]\n        return rest\n", twin=True),
    Mut("line-pos-closed-segment-end", "urwid/text_layout.py", "calc_line_pos", "if current_sc <= pref_col < current_sc + s.sc:", "if current_sc <= pref_col <= current_sc + s.sc:", "POSBOUND|text_layout.calc_line_pos"),
    Mut("twin-line-pos-mirrored", "urwid/text_layout.py", "calc_line_pos", "if current_sc <= pref_col < current_sc + s.sc:", "if current_sc + s.sc > pref_col >= current_sc:", twin=True),
    Mut("numedit-case-mapped-membership", _N, "NumEdit.valid_char", "if ch in self._allowed or (ch.isascii() and ch.upper() in self._allowed):", "if ch.upper() in self._allowed:", "ALPHABET|numedit.NumEdit.valid_char|case-mapped"),
    Mut("numedit-digit-before-minus", _N, "NumEdit.valid_char", "                return not (self.edit_pos == 0 and self.edit_text[:1] == \"-\")\n", "                return True\n", "ALPHABET|numedit.NumEdit.valid_char|accepting return"),
    Mut("integeredit-default-dollar-anchor", _N, "IntegerEdit.__init__", "                validation_re = f\"[{allowed_chars}]+\"\n                if not re.fullmatch(validation_re, str(default), re.IGNORECASE | re.ASCII):", "                validation_re = f\"^[{allowed_chars}]+$\"\n                if not re.match(validation_re, str(default), re.IGNORECASE | re.ASCII):", "ALPHABET|numedit.IntegerEdit.__init__|validation with re.match"),
    Mut("integeredit-default-unicode-icase", _N, "IntegerEdit.__init__", "re.IGNORECASE | re.ASCII", "re.IGNORECASE", "ALPHABET|numedit.IntegerEdit.__init__|IGNORECASE"),
    Mut("intedit-trim-text-before-cursor", "urwid/widget/edit.py", "IntEdit.keypress", "            self.set_edit_pos(self.edit_pos - 1)\n            self.set_edit_text(self.edit_text[1:])", "            self.set_edit_text(self.edit_text[1:])\n            self.set_edit_pos(self.edit_pos - 1)", "ORDER|widget.edit.IntEdit.keypress"),
    Mut("end-key-last-byte", "urwid/text_layout.py", "calc_line_pos", "        return calc_text_pos(text, s.offs, s.end, s.sc - 1)[0]\n\n    for seg in line_layout:", "        return s.end - 1\n\n    for seg in line_layout:", "OFFSTEP|text_layout.calc_line_pos"),
    Mut("pos-unclamped-low", _F, "Edit.set_edit_pos", "pos = min(max(pos, 0), len(self._edit_text))", "pos = min(pos, len(self._edit_text))", "WRITER|widget.edit.Edit.set_edit_pos"),
    Mut("text-written-by-insert", _F, "Edit.insert_text", "        self.set_edit_text(result_text)\n", "        self._edit_text = result_text\n", "WRITER|widget.edit.Edit.insert_text"),
    Mut("no-reclamp-after-replace", _F, "Edit.set_edit_text", "        self.edit_pos = min(self.edit_pos, len(text))\n", "", ("WRITER|widget.edit.Edit.set_edit_text", "PASS|widget.edit.Edit.set_edit_text")),
    Mut("change-after-store", _F, "Edit.set_edit_text", "        self._emit(\"change\", text)\n        old_text = self._edit_text\n        self._edit_text = text\n", "        old_text = self._edit_text\n        self._edit_text = text\n        self._emit(\"change\", text)\n", "ORDER|widget.edit.Edit.set_edit_text"),
    Mut("postchange-new-text", _F, "Edit.set_edit_text", "self._emit(\"postchange\", old_text)", "self._emit(\"postchange\", text)", "ORDER|widget.edit.Edit.set_edit_text"),
    Mut("old-bound-after-store", _F, "Edit.set_edit_text", "        old_text = self._edit_text\n        self._edit_text = text\n", "        self._edit_text = text\n        old_text = self._edit_text\n", "ORDER|widget.edit.Edit.set_edit_text"),
    Mut("left-by-arithmetic", _F, "Edit.keypress", "            pos = move_prev_char(self.edit_text, 0, pos)\n            self.set_edit_pos(pos)\n            return None\n\n        if self._command_map[key] == Command.RIGHT:", "            pos = pos - 1\n            self.set_edit_pos(pos)\n            return None\n\n        if self._command_map[key] == Command.RIGHT:", "WRITER|widget.edit.Edit.keypress"),
    Mut("delete-by-arithmetic", _F, "Edit.keypress", "self.set_edit_text(self.edit_text[: self.edit_pos] + self.edit_text[pos:])", "self.set_edit_text(self.edit_text[: self.edit_pos] + self.edit_text[self.edit_pos + 1 :])", "WRITER|widget.edit.Edit.keypress"),
    Mut("keypress-returns-literal", _F, "Edit.keypress", "        # key wasn't handled\n        return key", "        # key wasn't handled\n        return \"unhandled\"", "RET|widget.edit.Edit.keypress"),
    Mut("set-mask-no-invalidate", _F, "Edit.set_mask", "        self._mask = mask\n        self._invalidate()", "        self._mask = mask", "INV|widget.edit.Edit.set_mask"),
    Mut("intedit-unicode-digits", _F, "IntEdit.valid_char", "return len(ch) == 1 and ch in string.digits", "return len(ch) == 1 and ch.isdigit()", "ALPHABET|widget.edit.IntEdit.valid_char"),
    Mut("setpos-keeps-pref-col", _F, "Edit.set_edit_pos", "        self.pref_col_maxcol = None, None\n        self._edit_pos = pos", "        self._edit_pos = pos", "PASS|widget.edit.Edit.set_edit_pos"),
    Mut("coords-on-unmasked-text", _F, "Edit.position_coords", "x, y = text_layout.calc_coords(self.get_text()[0], trans, p)", "x, y = text_layout.calc_coords(self.caption + self.edit_text, trans, p)", "SIB|widget.edit.Edit.position_coords"),
    Mut("twin-conditional-reclamp", _F, "Edit.set_edit_text", "        self.edit_pos = min(self.edit_pos, len(text))\n", "        if self._edit_pos > len(text):\n            self.edit_pos = len(text)\n        self.pref_col_maxcol = None, None\n", twin=True),
    Mut("twin-clamp-reordered", _F, "Edit.set_edit_pos", "pos = min(max(pos, 0), len(self._edit_text))", "pos = max(0, min(pos, len(self._edit_text)))", twin=True),
    Mut("twin-left-local-renamed", _F, "Edit.keypress", "            pos = move_prev_char(self.edit_text, 0, pos)\n            self.set_edit_pos(pos)\n            return None\n\n        if self._command_map[key] == Command.RIGHT:", "            new_pos = move_prev_char(self.edit_text, 0, pos)\n            self.set_edit_pos(new_pos)\n            return None\n\n        if self._command_map[key] == Command.RIGHT:", twin=True),
    Mut("twin-intedit-literal-alphabet", _F, "IntEdit.valid_char", "return len(ch) == 1 and ch in string.digits", "return len(ch) == 1 and ch in \"0123456789\"", twin=True),
]
