"""C03 - text layout shows every character once, in order, within the width."""

from __future__ import annotations

import ast

from ..core import Ctx, RuleResult, finding, short, walk_no_nested
from ..model import AnalysisError, norm
from ..mutants import Mut
from ..rules import accum, loopfresh, offstep, exc, prog
from ..rules.exc import ExcEngine
from ..rules.util import callee_name, cfg_of, lin_str, linear, nodes_where
from . import c01, c11

EXPLANATION = (
    "Decided (necessary structural conditions of C03): (1) EXC: CanNotDisplayText cannot escape StandardTextLayout.layout (it is raised while computing segments and answered with the "
    "empty line [[]]); (2) PROG: every while loop of text_layout.py advances its index on every back edge - the layout terminates for every text; (3) Text.rows / pack / render share one "
    "layout and one canvas row is emitted per layout line (rows reported = lines rendered); (4) CONSUME: a zero-width segment (0, offs) - the marker of a character that is consumed and "
    "not shown - is only emitted for the newline position of the current line or under a test that text[offs] is a space (or a space/newline); (5) ALIGN: the left padding is width - sc "
    "for right alignment and (width - sc + 1) // 2 (half, rounded up) for centre, nothing for left; (6) DEADCMP: double-byte second-half tests used by the backward break search are not dead; (7) an already emitted line is taken back (to re-wrap an over-long word) only under an "
    "equality test of its consumed character against the space, never a newline."
    ' Added after seed round 3: (9) ACCUM on calc_coords / line_width; (10) OFFSTEP - a text offset is advanced by a constant only where the character stepped over is known to be one byte (a find() position of the newline, or under a text[x] == space test); (11) a segment cut with calc_trim_text declares end_col - start_col - pad_left - pad_right columns (linear forms compared).'
    ' Round 4: (12) LOOPFRESH on the per-line state of _calculate_trimmed_segments / apply_text_layout; (13) a segment measured with calc_width is measured over its own offsets; (14) the str and the UTF-8 column searches leave their scan loop under the same condition.'
    ' Round 6: the width helpers the layout relies on are checked here too (shared with C11): (16) within_double_byte tests exactly the lead / trail byte ranges of the double-byte encodings; (17) calc_width counts str text per character, never as the plain offset difference; (18) invalid UTF-8 is measured with decode_one as the offset functions walk it.'
    ' Round 8: (19) MEMO: no lru_cache-decorated measuring function reads a rebindable global (C11.15); (20) RUNPOS: pad segments are non-zero (C01.30).'
    ' Round-8 triage: (21) ORDER: a width-keyed memo stores its key after the value it describes (fix 1a1af51).'
)
NOT_DECIDED = (
    "Completeness and non-duplication of characters as a value statement, that no laid-out line spans a hard newline, fill-optimality of 'any' wrapping, break-at-space-whenever-possible, "
    "ellipsis placement - value properties of offsets."
)
ASSUMPTIONS = []

TL = "urwid.text_layout"
STL = f"{TL}.StandardTextLayout"


def _roles(fi):
    """(space names, newline names, newline-position names) of a layout function, found from their definitions:
    a name bound to ' ' / ord(' ') is a space, to a newline likewise, a name bound to <text>.find(...) is the newline position."""
    from ..rules.defuse import DefUse

    du = DefUse(fi)
    space, newline, nlpos = set(), set(), set()
    changed = True
    while changed:
        changed = False
        for name, ds in du.defs.items():
            for dn, v, how in ds:
                kind = None
                if isinstance(v, ast.Constant) and v.value in (" ", b" "):
                    kind = space
                elif isinstance(v, ast.Constant) and v.value in ("\n", b"\n"):
                    kind = newline
                elif isinstance(v, ast.Call) and isinstance(v.func, ast.Name) and v.func.id == "ord" and v.args and isinstance(v.args[0], ast.Name):
                    kind = space if v.args[0].id in space else newline if v.args[0].id in newline else None
                elif isinstance(v, ast.Call) and isinstance(v.func, ast.Attribute) and v.func.attr == "find":
                    kind = nlpos
                elif isinstance(v, ast.Call) and isinstance(v.func, ast.Name) and v.func.id == "len" and name in nlpos:
                    kind = nlpos
                if kind is not None and name not in kind:
                    kind.add(name)
                    changed = True
    return space, newline, nlpos


def rule_consume(ctx: Ctx) -> RuleResult:
    p = ctx.p
    rr = RuleResult("GUARD", "C03.4", "zero-width consumed-character markers (0, offs) are emitted only for the line's newline position or under a space / newline test of text[offs]", floor=5)
    fi = p.func(f"{STL}.calculate_text_segments")
    cfg = cfg_of(fi)
    text = fi.params[1]
    space, newline, nlpos = _roles(fi)
    if not space or not nlpos:
        raise AnalysisError("calculate_text_segments: the space constant / newline position variables were not found")
    markers = []
    for n in cfg.nodes:
        if n.ast is None or n.kind in ("for", "with", "handler"):
            continue
        for x in walk_no_nested(n.ast):
            if isinstance(x, ast.Tuple) and len(x.elts) == 2 and isinstance(x.elts[0], ast.Constant) and x.elts[0].value == 0 and isinstance(x.ctx, ast.Load):
                markers.append((n, x))
    for n, tup in markers:
        off = ast.unparse(tup.elts[1])
        ident = f"(0, {off})@{norm(n.stmt, 40)}"
        if off in nlpos:
            rr.inst(ident, True, {"marker": f"(0, {off})", "justified_by": "newline position of the current line"} if len(rr.samples) < 6 else None)
            continue
        tests = [t for t in cfg.nodes if t.kind == "test" and f"{text}[{off}]" in ast.unparse(t.ast) and any(isinstance(x, ast.Name) and x.id in space for x in ast.walk(t.ast))]
        ok = False
        for t in tests:
            if n not in ExcEngine._reach_without_edge(cfg, t, "T"):
                ok = True
        rr.inst(ident, True, {"marker": f"(0, {off})", "justified_by": "space test" if ok else None} if len(rr.samples) < 6 else None)
        if not ok:
            rr.add(finding("GUARD", fi, n.stmt, f"`{norm(n.stmt, 60)}` emits the consumed-character marker (0, {off}) on a path where `{text}[{off}]` was not found to be a space: a visible character is dropped from the display", construct=f"unguarded consume marker (0, {off})"))
    return rr


def rule_align(ctx: Ctx) -> RuleResult:
    p = ctx.p
    rr = RuleResult("PAIR", "C03.5", "alignment pads by width - sc (right) and (width - sc + 1) // 2 (centre); left adds nothing", floor=3)
    fi = p.func(f"{STL}.align_layout")
    cfg = cfg_of(fi)
    from ..rules.defuse import DefUse

    du = DefUse(fi)
    width = fi.params[2]
    scdefs = [n for n in fi.own_nodes() if isinstance(n, ast.Assign) and isinstance(n.value, ast.Call) and callee_name(n.value) == "line_width"]
    if len(scdefs) != 1:
        raise AnalysisError("align_layout: `sc = line_width(lines)` not found")
    sc = ast.unparse(scdefs[0].value)  # after def-use expansion `sc` reads as line_width(lines)
    pads = []
    for n in cfg.nodes:
        if n.ast is None:
            continue
        for x in walk_no_nested(n.ast) if n.kind not in ("for", "with", "handler") else []:
            if isinstance(x, ast.Tuple) and len(x.elts) == 2 and isinstance(x.elts[1], ast.Constant) and x.elts[1].value is None and isinstance(x.ctx, ast.Load):
                pads.append((n, x))
    if len(pads) < 2:
        raise AnalysisError("align_layout: padding segments (n, None) not found")
    for n, tup in pads:
        e = du.expand(tup.elts[0], n)
        # which alignment? dominated by align == 'right' T edge, or reached after align != 'center' raise
        right = [t for t in cfg.nodes if t.kind == "test" and "'right'" in ast.unparse(t.ast) and n not in ExcEngine._reach_without_edge(cfg, t, "T")]
        mode = "right" if right else "center"
        rr.inst(f"{mode} padding", True, {"alignment": mode, "padding": ast.unparse(e)})
        if mode == "right":
            if linear(e) != {width: 1, sc: -1}:
                rr.add(finding("PAIR", fi, n.stmt, f"right alignment pads by `{ast.unparse(e)}`, not by all of the spare columns ({width} - {sc})", construct=f"right padding {ast.unparse(e)}"))
        else:
            ok = isinstance(e, ast.BinOp) and isinstance(e.op, ast.FloorDiv) and isinstance(e.right, ast.Constant) and e.right.value == 2 and linear(e.left) == {width: 1, sc: -1, "": 1}
            if not ok:
                rr.add(finding("PAIR", fi, n.stmt, f"centre alignment pads by `{ast.unparse(e)}`, not by half of the spare columns rounded up (({width} - {sc} + 1) // 2)", construct=f"centre padding {ast.unparse(e)}"))
    # left: the branch that appends the unchanged line
    left = [t for t in cfg.nodes if t.kind == "test" and "'left'" in ast.unparse(t.ast)]
    rr.inst("left adds nothing", True)
    if not left:
        rr.add(finding("PAIR", fi, fi.node, "align_layout has no branch for left alignment (lines appended unchanged)", construct="no left branch"))
    return rr


def rule_reopen(ctx: Ctx) -> RuleResult:
    """An already emitted line may only be taken back (del segments[-1]) when it ended at a soft wrap point,
    i.e. its consumed character is a space - never when it ended at a hard newline."""
    p = ctx.p
    rr = RuleResult("GUARD", "C03.7", "a laid-out line is re-opened only under a test that its consumed character is a space (never a newline)", floor=1)
    fi = p.func(f"{STL}.calculate_text_segments")
    cfg = cfg_of(fi)
    text = fi.params[1]
    space, newline, _nlpos = _roles(fi)
    undo = [n for n in cfg.nodes if isinstance(n.ast, ast.Delete) and any(isinstance(t, ast.Subscript) and isinstance(t.value, ast.Name) for t in n.ast.targets)] + nodes_where(cfg, lambda x: isinstance(x, ast.Call) and isinstance(x.func, ast.Attribute) and x.func.attr == "pop" and isinstance(x.func.value, ast.Name) and not x.args)
    if not undo:
        raise AnalysisError("calculate_text_segments: no statement taking back an emitted line found (del segments[-1])")
    for u in undo:
        ok = False
        why = ""
        for t in cfg.nodes:
            if t.kind != "test" or u in ExcEngine._reach_without_edge(cfg, t, "T"):
                continue
            conj = t.ast.values if isinstance(t.ast, ast.BoolOp) and isinstance(t.ast.op, ast.And) else [t.ast]
            for c in conj:
                if isinstance(c, ast.Compare) and len(c.ops) == 1 and ast.unparse(c.left).startswith(f"{text}["):
                    if isinstance(c.ops[0], ast.Eq) and isinstance(c.comparators[0], ast.Name) and c.comparators[0].id in space:
                        ok = True
                    elif any(isinstance(x, ast.Name) and x.id in newline for x in ast.walk(c)):
                        why = f" (the guard `{norm(c, 50)}` also admits a newline)"
        rr.inst(f"undo:{norm(u.stmt, 40)}", True, {"statement": norm(u.stmt, 50), "guarded_by_space_test": ok})
        if not ok:
            rr.add(finding("GUARD", fi, u.stmt, f"`{norm(u.stmt, 40)}` takes back an emitted line without an equality test of its consumed character against the space{why}: a line that ended at a hard newline is merged with the next one", construct=f"line re-opened without space test: {norm(u.stmt, 40)}"))
    return rr


def rule_trim_width(ctx: Ctx) -> RuleResult:
    """A layout segment (columns, start, end) whose offsets come from calc_trim_text(text, a, b, start_col, end_col)
    covers exactly end_col - start_col - pad_left - pad_right columns: that is what it must declare, otherwise
    the line claims a width it does not have and alignment shifts / clips it."""
    from ..rules.defuse import DefUse
    from ..rules.util import linear, lin_str

    p = ctx.p
    rr = RuleResult("PAIR", "C03.11", "a segment cut with calc_trim_text declares end_col - start_col - pad_left - pad_right columns", floor=1)
    fi = p.func(f"{STL}._calculate_trimmed_segments")
    du = DefUse(fi)
    cfg = du.cfg
    calls = [n for n in cfg.nodes if isinstance(n.ast, ast.Assign) and isinstance(n.ast.targets[0], ast.Tuple) and len(n.ast.targets[0].elts) == 4 and isinstance(n.ast.value, ast.Call) and callee_name(n.ast.value) == "calc_trim_text" and len(n.ast.value.args) == 5]
    if not calls:
        raise AnalysisError("_calculate_trimmed_segments: the calc_trim_text call was not found")
    for cn in calls:
        so, eo, pl, pr = (e.id if isinstance(e, ast.Name) else None for e in cn.ast.targets[0].elts)
        a = cn.ast.value.args
        want = linear(ast.BinOp(left=a[4], op=ast.Sub(), right=a[3]))
        if want is None or None in (so, eo, pl, pr):
            raise AnalysisError("_calculate_trimmed_segments: calc_trim_text call not in the expected shape")
        want = dict(want)
        want[pr] = want.get(pr, 0) - 1
        want_pl = dict(want)
        want_pl[pl] = want_pl.get(pl, 0) - 1
        zero_pl = any(t.kind == "test" and ast.unparse(t.ast) in (f"{pl} != 0", f"{pl}") and any(x.kind == "raise" or isinstance(x.ast, ast.Raise) for x, lab in t.succ if lab == "T") for t in cfg.nodes)
        # segments (W, s, e) built from these offsets
        n = 0
        for node in cfg.nodes:
            if node.ast is None or node.kind in ("for", "with", "handler"):
                continue
            for t in walk_no_nested(node.ast):
                if isinstance(t, ast.Tuple) and len(t.elts) == 3 and isinstance(t.ctx, ast.Load) and isinstance(t.elts[2], ast.Name) and t.elts[2].id == eo:
                    for v, how, dn in du.reaching(t.elts[0].id, node) if isinstance(t.elts[0], ast.Name) else [(t.elts[0], "expr", node)]:
                        if not isinstance(v, ast.AST) or cn not in cfg.reachable([cfg.entry], avoid=[dn], include_start=True) and dn is not node:
                            pass
                        if not isinstance(v, ast.AST):
                            continue
                        # only definitions made after (dominated by) the trim call describe the trimmed text
                        if dn is not node and not cfg.dominated(dn, [cn]):
                            continue
                        got = linear(v)
                        n += 1
                        rr.inst(f"{norm(t, 40)}<-{norm(v, 40)}", True, {"segment": norm(t, 50), "declared": norm(v, 50), "covered": lin_str({k: x for k, x in want.items() if x})})
                        clean = lambda d: {k: x for k, x in (d or {}).items() if x}
                        if got is None or (clean(got) != clean(want_pl) and not (zero_pl and clean(got) == clean(want))):
                            rr.add(finding("PAIR", fi, dn.stmt, f"the segment `{norm(t, 50)}` declares `{norm(v, 50)}` columns, but the text between the offsets calc_trim_text returned covers `{lin_str(clean(want))}`: the line claims a width it does not have, so center / right alignment shifts and clips it", construct=f"trimmed segment declares {norm(v, 50)}"))
        if not n:
            raise AnalysisError("_calculate_trimmed_segments: no segment uses the offsets calc_trim_text returned")
    return rr


def rule_segment_width(ctx: Ctx, clause: str = "C03.13") -> RuleResult:
    """A text segment (columns, start, end) whose width was measured with calc_width(text, a, b) must be measured
    over exactly the offsets it covers (a = start, b = end): alignment and trimming trust the declared width."""
    from ..rules.defuse import DefUse

    p = ctx.p
    rr = RuleResult("PAIR", clause, "a layout segment (columns, start, end) measured with calc_width is measured over its own offsets", floor=3)
    for q in (f"{STL}.calculate_text_segments", f"{STL}._calculate_trimmed_segments"):
        fi = p.func(q)
        du = DefUse(fi)
        for node in du.cfg.nodes:
            if node.ast is None or node.kind in ("for", "with", "handler"):
                continue
            for t in walk_no_nested(node.ast):
                if not (isinstance(t, ast.Tuple) and len(t.elts) == 3 and isinstance(t.ctx, ast.Load) and isinstance(t.elts[0], ast.Name)):
                    continue
                # an *insert* segment (columns, offset, bytes to insert): the third element is the encoded text itself,
                # its width has to be measured on exactly those bytes - calc_width(X, 0, len(X)) - because the column
                # count of a character depends on the byte encoding it was encoded for
                third = t.elts[2]
                if isinstance(third, ast.Name):
                    tdefs = [dv for dv, _h, _d in du.reaching(third.id, node) if isinstance(dv, ast.AST)]
                    if tdefs and all((isinstance(dv, ast.Call) and isinstance(dv.func, ast.Attribute) and dv.func.attr == "encode") or (isinstance(dv, ast.Constant) and isinstance(dv.value, bytes)) for dv in tdefs):
                        for v, how, dn in du.reaching(t.elts[0].id, node):
                            if not isinstance(v, ast.AST):
                                continue
                            good = isinstance(v, ast.Call) and callee_name(v) == "calc_width" and len(v.args) == 3 and ast.unparse(v.args[0]) == third.id and ast.unparse(v.args[1]) == "0" and ast.unparse(v.args[2]) == f"len({third.id})"
                            rr.inst(f"{short(fi)}:insert {norm(t, 40)}<-{norm(v, 40)}", True, {"insert_segment": norm(t, 50), "measured": norm(v, 50)} if len(rr.samples) < 6 else None)
                            if not good:
                                rr.add(finding("PAIR", fi, dn.stmt, f"the insert segment `{norm(t, 50)}` declares `{norm(v, 50)}` columns for the bytes `{third.id}`: the width is not measured on the inserted bytes themselves (calc_width({third.id}, 0, len({third.id}))), so in an encoding where the mark is a double-width character (euc-jp '…') the line is one column wider than declared and the canvas overflows", construct=f"insert segment width not measured on the inserted bytes: {norm(v, 50)}"))
                        continue
                for v, how, dn in du.reaching(t.elts[0].id, node):
                    if not (isinstance(v, ast.Call) and callee_name(v) == "calc_width" and len(v.args) == 3):
                        continue
                    a, b = du.text(v.args[1], dn), du.text(v.args[2], dn)
                    s_, e_ = du.text(t.elts[1], node), du.text(t.elts[2], node)
                    # compare the unexpanded spellings first (same names at both sites), else the expansions
                    def spellings(e, at):
                        out = {ast.unparse(e), du.text(e, at)}
                        if isinstance(e, ast.Name):
                            out |= {ast.unparse(dv) for dv, _h, _d in du.reaching(e.id, at) if isinstance(dv, ast.AST)}
                        return out

                    # branch-correlated definitions (end_off = nl_pos on the untrimmed path) are accepted: the measured
                    # offset has to be one of the values the segment's offset can have
                    same = bool(spellings(v.args[1], dn) & spellings(t.elts[1], node)) and bool(spellings(v.args[2], dn) & spellings(t.elts[2], node))
                    rr.inst(f"{short(fi)}:{norm(t, 40)}<-{norm(v, 40)}", True, {"segment": norm(t, 50), "measured": norm(v, 50)} if len(rr.samples) < 6 else None)
                    if not same:
                        rr.add(finding("PAIR", fi, dn.stmt, f"the segment `{norm(t, 50)}` covers offsets {ast.unparse(t.elts[1])}..{ast.unparse(t.elts[2])} but its width was measured as `{norm(v, 50)}`: the line declares fewer (or more) columns than its text occupies, alignment over-pads it and the canvas is wider than requested", construct=f"segment width measured over other offsets: {norm(v, 50)}"))
    return rr


def rule_segment_positive(ctx: Ctx, clause: str = "C03.15") -> RuleResult:
    """LayoutSegment rejects a text segment of zero columns, (0, start, end).  A width that was *measured*
    (calc_width of a run that may consist of zero-width characters only) or *computed as a remainder* (what is left
    after trimming) can be 0: the segment may only be built where the path has established that the width is positive
    (a test of the width itself, or the run is known to contain a double-width character)."""
    from ..rules.defuse import DefUse

    p = ctx.p
    rr = RuleResult("GUARD", clause, "a (columns, start, end) text segment whose width was measured or is a remainder is only built under a test that the width is positive", floor=4)
    for q in (f"{STL}.calculate_text_segments", f"{STL}._calculate_trimmed_segments", "urwid.text_layout.LayoutSegment.subseg"):
        fi = p.func(q)
        du = DefUse(fi)
        cfg = du.cfg
        for node in cfg.nodes:
            if node.ast is None or node.kind in ("for", "with", "handler"):
                continue
            for t in walk_no_nested(node.ast):
                if not (isinstance(t, ast.Tuple) and len(t.elts) == 3 and isinstance(t.ctx, ast.Load)):
                    continue
                W = t.elts[0]
                if isinstance(W, ast.Constant) or (isinstance(t.elts[2], (ast.Constant,)) and isinstance(t.elts[2].value, (str, bytes))):
                    continue
                if isinstance(W, ast.Name):
                    defs = [v for v, how, dn in du.reaching(W.id, node) if isinstance(v, ast.AST)]
                    risky = [v for v in defs if (isinstance(v, ast.Call) and callee_name(v) == "calc_width") or (isinstance(v, ast.BinOp) and isinstance(v.op, ast.Sub))]
                    if not risky:
                        continue  # e.g. the column count calc_text_pos returned together with an advanced offset
                    wtxt = W.id
                elif isinstance(W, ast.BinOp) and isinstance(W.op, ast.Sub):
                    wtxt = ast.unparse(W)
                else:
                    continue
                # guard tests and the edge on which the width is known to be positive
                pos_edges = {}
                for tst in cfg.nodes:
                    if tst.kind != "test":
                        continue
                    conj = [ast.unparse(v) for v in tst.ast.values] if isinstance(tst.ast, ast.BoolOp) and isinstance(tst.ast.op, ast.And) else [ast.unparse(tst.ast)]
                    disj = [ast.unparse(v) for v in tst.ast.values] if isinstance(tst.ast, ast.BoolOp) and isinstance(tst.ast.op, ast.Or) else [ast.unparse(tst.ast)]
                    posT = {wtxt, f"{wtxt} > 0", f"{wtxt} >= 1", f"0 < {wtxt}"}
                    posF = {f"{wtxt} == 0", f"{wtxt} <= 0", f"not {wtxt}", f"{wtxt} < 1"}
                    if " - " in wtxt and wtxt.count(" - ") == 1:
                        x_, y_ = wtxt.split(" - ")
                        posT |= {f"{x_} > {y_}", f"{y_} < {x_}"}
                        posF |= {f"{y_} >= {x_}", f"{x_} <= {y_}"}
                    if any(c in posT or c.startswith("is_wide_char(") for c in conj):
                        pos_edges[tst] = "T"
                    elif any(c in posF for c in disj):
                        pos_edges[tst] = "F"
                # the segment must not be reachable from the definition of the width (or from the entry, for an
                # expression) without crossing a positive edge
                starts = [dn for v, how, dn in du.reaching(W.id, node) if isinstance(v, ast.AST)] if isinstance(W, ast.Name) else [cfg.entry]
                seen, work = set(starts), list(starts)
                while work:
                    n_ = work.pop()
                    for m_, lab in n_.succ:
                        if lab == "e" or (n_ in pos_edges and lab == pos_edges[n_]):
                            continue
                        if m_ not in seen:
                            seen.add(m_)
                            work.append(m_)
                ok = node not in seen
                if not ok:
                    # the measured run is known to contain a double-width character: the measurement itself is made
                    # under `is_wide_char(...)`
                    wide = [tst for tst in cfg.nodes if tst.kind == "test" and ast.unparse(tst.ast).startswith("is_wide_char(")]
                    ok = any(all(st not in ExcEngine._reach_without_edge(cfg, tst, "T") for st in starts) for tst in wide) and cfg.entry not in starts
                if not ok:
                    # guarded through a flag: `flag = True` only where the width was tested, segment built under `if flag:`
                    for ft in cfg.nodes:
                        if ft.kind != "test" or not isinstance(ft.ast, ast.Name) or node in ExcEngine._reach_without_edge(cfg, ft, "T"):
                            continue
                        fdefs = [(v, dn) for v, how, dn in du.reaching(ft.ast.id, ft) if isinstance(v, ast.AST)]
                        trues = [dn for v, dn in fdefs if not (isinstance(v, ast.Constant) and v.value is False)]
                        if fdefs and all(isinstance(v, ast.Constant) and isinstance(v.value, bool) for v, dn in fdefs) and trues and all(any(pos_edges.get(pt) == "T" and dn not in ExcEngine._reach_without_edge(cfg, pt, "T") for pt in pos_edges) for dn in trues):
                            ok = True
                rr.inst(f"{short(fi)}:{norm(t, 40)}@{node.lineno}", True, {"segment": f"{short(fi)}: {norm(t, 50)}", "guarded": ok} if len(rr.samples) < 6 else None)
                if not ok:
                    rr.add(finding("GUARD", fi, node.stmt, f"the text segment `{norm(t, 50)}` is built without a test that `{wtxt}` is positive: for a run of zero-width characters only (or when trimming leaves nothing of a double-width character) the width is 0 and LayoutSegment raises ValueError instead of the text simply not being shown", construct=f"segment {norm(t, 50)} without positivity test"))
    return rr


_KEY_FIRST_OK: dict[str, str] = {}


def rule_memo_key_last(ctx: Ctx) -> RuleResult:
    """'the row count reported for a width equals the number of lines rendered at that width': Text keeps the layout of
    the last width (_cache_translation under the key _cache_maxcol).  The key says what the stored value belongs to,
    so it is written after the value: a layout() that raises in between (a custom layout, a UnicodeWarning turned
    into an error) must leave the old pair intact - with the key written first the old translation is filed under
    the new width and the next rows() answers from it (fix 1a1af51: rows((3,)) == 1 for a text that needs 4).  In
    every widget method that stores a width key from its parameter and a value computed by a call, the key store is
    dominated by the value store."""
    p = ctx.p
    rr = RuleResult("ORDER", "C03.21", "a width-keyed memo stores its key after the value it describes", floor=1)
    for fi in p.functions.values():
        if not fi.module.name.startswith("urwid.widget") or fi.is_lambda or not fi.self_name:
            continue
        cfg = None
        keys = [n for n in fi.own_nodes() if isinstance(n, ast.Assign) and len(n.targets) == 1 and isinstance(n.targets[0], ast.Attribute) and n.targets[0].attr.startswith("_cache_") and isinstance(n.value, ast.Name) and n.value.id in fi.params]
        key_attrs = {k.targets[0].attr for k in keys}
        # the value(s) filed under the key: the other _cache_* attributes stored here (directly from the call or via a local)
        vals = [n for n in fi.own_nodes() if isinstance(n, ast.Assign) and len(n.targets) == 1 and isinstance(n.targets[0], ast.Attribute) and isinstance(n.targets[0].value, ast.Name) and n.targets[0].value.id == fi.self_name and n.targets[0].attr.startswith("_cache_") and n.targets[0].attr not in key_attrs]
        if not keys or not vals:
            continue
        cfg = cfg_of(fi)
        for k in keys:
            kn = nodes_where(cfg, lambda x, k=k: x is k.targets[0])
            vn = [n for v in vals for n in nodes_where(cfg, lambda x, v=v: x is v.targets[0])]
            ok = bool(kn) and all(cfg.dominated(n, vn) for n in kn)
            rr.inst(f"{short(fi)}: {norm(k, 40)}", True, {"function": short(fi), "key": norm(k, 40), "values": [norm(v, 50) for v in vals], "key_after_value": ok})
            if not ok:
                if short(fi) in _KEY_FIRST_OK:
                    rr.exceptions_used.append(f"{short(fi)} - {_KEY_FIRST_OK[short(fi)]}")
                    continue
                rr.add(finding("ORDER", fi, k, f"`{norm(k, 40)}` is stored before `{norm(vals[0], 50)}`: if that call raises, the memo keeps the old value under the new key and the next lookup for this width answers from the layout of another width (rows() / render() disagree with the text)", construct=f"{fi.name}: memo key stored before its value"))
    return rr


def _c01():
    from . import c01

    return c01


def _as(rr, clause):
    rr.clause = clause
    return rr


def run(ctx: Ctx):
    p = ctx.p
    # the text-consuming loops of the layout class (calc_pos's search loop pops from the lists its test reads and is
    # outside the termination-for-every-text clause)
    loops = [f.qualname for f in p.modules[TL].functions if f.cls is not None and f.cls.name == "StandardTextLayout" and any(isinstance(n, ast.While) for n in f.own_nodes())]
    r3 = c01.rule_text_rows(ctx)
    r3.clause = "C03.3"
    r6 = c11.rule_deadcmp(ctx)
    r6.clause = "C03.6"
    return [
        exc.run_exc(p, "C03.1", [(f"{STL}.layout", None)], allowed={}, infeasible={}, floor=1, only={"CanNotDisplayText"},
                    description="CanNotDisplayText cannot escape StandardTextLayout.layout (the undisplayable text yields the empty line)"),
        prog.run_progress(p, "C03.2", loops, floor=3, description="every while loop of text_layout.py assigns its index on every back edge"),
        r3,
        rule_consume(ctx),
        rule_align(ctx),
        r6,
        rule_reopen(ctx),
        accum.run_accum(p, "C03.9", "C03", floor=3),
        rule_trim_width(ctx),
        rule_segment_width(ctx),
        rule_segment_positive(ctx),
        c11.rule_scan_exit_twins(ctx, "C03.14"),
        _as(c11.rule_dbe_ranges(ctx, "C03.16"), "C03.16"),
        _as(c11.rule_str_widths_per_character(ctx), "C03.17"),
        _as(c11.rule_one_decoder(ctx), "C03.18"),
        _as(c11.rule_memo_globals(ctx), "C03.19"),
        _as(_c01().rule_pad_segment_nonzero(ctx), "C03.20"),
        rule_memo_key_last(ctx),
        loopfresh.run_loopfresh(p, "C03.12", "C03", floor=6),
        offstep.run_offstep(p, "C03.10", [f.qualname for f in p.modules[TL].functions], floor=5),
    ]


_T = "urwid/text_layout.py"
MUTANTS = [
    Mut("twin-text-memo-value-via-local", "urwid/widget/text.py", "Text._update_cache_translation", "        self._cache_translation = self.layout.layout(text, maxcol, self._align_mode, self._wrap_mode)\n        self._cache_maxcol = maxcol\n", "        translation = self.layout.layout(text, maxcol, self._align_mode, self._wrap_mode)\n        self._cache_translation = translation\n        self._cache_maxcol = maxcol\n", twin=True),
    Mut("text-memo-key-first", "urwid/widget/text.py", "Text._update_cache_translation", "        self._cache_translation = self.layout.layout(text, maxcol, self._align_mode, self._wrap_mode)\n        self._cache_maxcol = maxcol\n", "        self._cache_maxcol = maxcol\n        self._cache_translation = self.layout.layout(text, maxcol, self._align_mode, self._wrap_mode)\n", "ORDER|widget.text.Text._update_cache_translation|_update_cache_translation: memo key stored before its value"),
    Mut("ellipsis-width-measured-on-the-str", _T, "StandardTextLayout._calculate_trimmed_segments", "        ellipsis_width = calc_width(ellipsis_char, 0, len(ellipsis_char))\n        while", "        ellipsis_width = _get_width(ellipsis_string)\n        while", "PAIR|text_layout.StandardTextLayout._calculate_trimmed_segments|insert segment width"),
    Mut("ellipsis-inserted-without-width-test", _T, "StandardTextLayout._calculate_trimmed_segments", "if wrap == \"ellipsis\" and screen_columns > width and ellipsis_width:", "if wrap == \"ellipsis\" and screen_columns > width:", "GUARD|text_layout.StandardTextLayout._calculate_trimmed_segments"),
    Mut("clip-line-of-zero-width-chars", _T, "StandardTextLayout._calculate_trimmed_segments", "            if idx != end_off and screen_columns > 0:", "            if idx != end_off:", "GUARD|text_layout.StandardTextLayout._calculate_trimmed_segments"),
    Mut("space-wrap-zero-width-prefix", _T, "StandardTextLayout.calculate_text_segments", "                    if idx != prev and screen_columns > 0:", "                    if idx != prev:", "GUARD|text_layout.StandardTextLayout.calculate_text_segments"),
    Mut("subseg-empty-remainder", _T, "LayoutSegment.subseg", "            if end - start - pad_left - pad_right > 0:\n                lines.append((end - start - pad_left - pad_right, spos, epos))", "            lines.append((end - start - pad_left - pad_right, spos, epos))", "GUARD|text_layout.LayoutSegment.subseg"),
    Mut("wide-wrap-width-of-sibling-branch", _T, "StandardTextLayout.calculate_text_segments", "                    screen_columns = calc_width(text, idx, next_char)", "                    screen_columns = calc_width(text, idx, prev)", "PAIR|text_layout.StandardTextLayout.calculate_text_segments"),
    Mut("pad-right-carried-to-next-line", _T, "StandardTextLayout._calculate_trimmed_segments", "                trimmed = False\n                end_off = nl_pos\n                pad_right = 0\n", "                trimmed = False\n                end_off = nl_pos\n", "LOOPFRESH|text_layout.StandardTextLayout._calculate_trimmed_segments", also=[("            ellipsis_width = calc_width(ellipsis_char, 0, len(ellipsis_char))\n\n        idx = 0\n", "            ellipsis_width = calc_width(ellipsis_char, 0, len(ellipsis_char))\n\n        idx = 0\n        pad_right = 0\n")]),
    Mut("ellipsis-segment-one-column-short", _T, "StandardTextLayout._calculate_trimmed_segments", "screen_columns = width - ellipsis_width - pad_right", "screen_columns = width - 1 - pad_right", "PAIR|text_layout.StandardTextLayout._calculate_trimmed_segments"),
    Mut("ellipsis-segment-ignores-pad", _T, "StandardTextLayout._calculate_trimmed_segments", "screen_columns = width - ellipsis_width - pad_right", "screen_columns = width - ellipsis_width", "PAIR|text_layout.StandardTextLayout._calculate_trimmed_segments"),
    Mut("twin-ellipsis-segment-reordered", _T, "StandardTextLayout._calculate_trimmed_segments", "screen_columns = width - ellipsis_width - pad_right", "screen_columns = width - pad_right - ellipsis_width", twin=True),
    Mut("wide-wrap-steps-one-byte", _T, "StandardTextLayout.calculate_text_segments", "next_char = move_next_char(text, prev, pos)", "next_char = prev + 1", "OFFSTEP|text_layout.StandardTextLayout.calculate_text_segments"),
    Mut("layout-lets-cannot-display-escape", _T, "StandardTextLayout.layout", "        except CanNotDisplayText:\n            return [[]]", "        except ValueError:\n            return [[]]", "EXC|"),
    Mut("any-wrap-no-progress", _T, "StandardTextLayout.calculate_text_segments", "                segments.append([(screen_columns, idx, pos)])\n                idx = pos\n                continue\n\n            if wrap != \"space\":", "                segments.append([(screen_columns, idx, pos)])\n                continue\n\n            if wrap != \"space\":", "PROG|"),
    Mut("consume-non-space", _T, "StandardTextLayout.calculate_text_segments", "            if text[pos] == sp_o:\n                # perfect space wrap", "            if text[pos] != nl_o:\n                # perfect space wrap", "GUARD|text_layout.StandardTextLayout.calculate_text_segments", note="marker emitted without a space test"),
    Mut("center-rounds-down", _T, "StandardTextLayout.align_layout", "pad_trim_left = (width - sc + 1) // 2", "pad_trim_left = (width - sc) // 2", "PAIR|text_layout.StandardTextLayout.align_layout"),
    Mut("right-pad-off-by-one", _T, "StandardTextLayout.align_layout", "out.append([(width - sc, None), *lines])", "out.append([(width - sc - 1, None), *lines])", "PAIR|text_layout.StandardTextLayout.align_layout"),
    Mut("text-rows-own-layout", "urwid/widget/text.py", "Text.rows", "return len(self.get_line_translation(maxcol))", "return len(self.layout.layout(self.text, maxcol, self._align_mode, self._wrap_mode))", "ORDER|widget.text.Text.rows"),
    Mut("move-prev-char-dead-test", "urwid/str_util.py", "move_prev_char", "within_double_byte(text, start_offs, end_offs - 1) == 2", "within_double_byte(text, end_offs - 1, end_offs - 1) == 2", "DEADCMP|str_util.move_prev_char"),
    Mut("unwrap-across-newline", _T, "StandardTextLayout.calculate_text_segments", "if p_sc < width and h_sc == 0 and text[h_off] == sp_o:", "if p_sc < width and h_sc == 0 and text[h_off] in {sp_o, nl_o}:", "GUARD|text_layout.StandardTextLayout.calculate_text_segments"),
    Mut("twin-center-regrouped", _T, "StandardTextLayout.align_layout", "pad_trim_left = (width - sc + 1) // 2", "pad_trim_left = (1 + width - sc) // 2", twin=True),
]
