"""C20 - Scrollable shows the right slice; scrollbars reflect the position."""

from __future__ import annotations

import ast

from ..core import Ctx, RuleResult, finding, short, walk_no_nested
from ..model import AnalysisError, norm
from ..mutants import Mut
from ..rules import fwd, dim, fresh, inv, posbound, prog
from ..rules.defuse import DefUse
from ..rules.exc import ExcEngine
from ..rules.util import callee_name, cfg_of, lin_str, linear, nodes_where
from ..tables import INV_EXCEPTIONS, INV_RENDER_EXCEPTIONS

EXPLANATION = (
    "Decided (necessary structural conditions of C20): (1) WRITER: every store to _trim_top made while rendering (_adjust_trim_top) is a clamped form - ensure_bounds(.) whose body is "
    "max(0, min(canv_rows - maxrow, .)), max(0, .), the literal 0, `canv_rows - maxrow` after the early return for content that fits, or the cursor row under `cursrow < self._trim_top`; "
    "set_scrollpos stores int(position) and invalidates; (2) slice/translation pairing: render trims the canvas top by the very attribute (self._trim_top) that mouse_event adds to the row "
    "and get_scrollpos reports; (3) DIM/POSBOUND on scrollable.py, the ScrollBar's bottom part is the remainder maxrow - thumb_height - top_height and the bar width the remainder "
    "maxcol - child width; (4) forwarding: a scroll action is set only on paths where the child was not offered the key or returned it unhandled (return on `key is None` first); "
    "(7) FRESHLIST: padding the visible slice never appends to the shard list of the wrapped widget's cached canvas (a taller first view would otherwise inflate the content the next, "
    "lower view scrolls over); (5) thumb geometry is computed only from queries made with the size the wrapped widget is drawn at (ow_size), never the ScrollBar's own size."
    " Added after seed round 3: every return of Scrollable.render comes after _adjust_trim_top() (the position reported is 0 when the content fits); a constant top part is stored only under a test that the thumb leaves room; (8) FOCUS-FWD on the scrolling protocol (ListBox.get_scrollpos -> calculate_visible); (9) ScrollBar remembers for keypress()/mouse_event() exactly the size handed to the wrapped widget's render()."
    ' Round 4: (10) ListBox.get_first_visible_pos returns a count obtained by walking get_prev(), never a walker position, and positions are never tested for being integers; (11) Scrollable.render returns the untrimmed canvas only when it fits in both directions.'
    ' Round-4 triage: (3, extended) the relative-mode total is raised to position + visible amount before the maximum position is derived from it; (12) INV-RENDER - when rendering moves / clamps the position for the size at hand, the canvases cached for other sizes are dropped (shared with C06.9). Round 5: (13) the one-shot scroll request is reset on every path through _adjust_trim_top; (14) the wheel arithmetic of ScrollBar normalises a from-the-end position first.'
    ' Round 6: (15) every normal return of Scrollable.render() has stored the flag keypress() routes by (_forward_keypress), also the early return for content that fits (fix 2cfcfcf).'
    ' Round 7: (16) the cview top / left trims are mirror images (a second trim adds to the offset a view already has): the slice of a canvas that contains pre-trimmed views is still rows p.. of it.'
    ' Round 8: (17) WRITER: every store into ScrollBar._scrollbar_width is floored at 1 (render() reads the raw attribute).'
)
NOT_DECIDED = "0 <= position <= total - height after every history as a value statement, thumb monotonicity, rounding of the thumb, wheel handling, relative-scroll estimates."
ASSUMPTIONS = []

S = "urwid.widget.scrollable.Scrollable"
SB = "urwid.widget.scrollable.ScrollBar"
MOD = "urwid.widget.scrollable"


def rule_trim_writers(ctx: Ctx) -> RuleResult:
    p = ctx.p
    rr = RuleResult("WRITER", "C20.1", "every store to _trim_top on the render path is a clamp form; set_scrollpos stores int(position)", floor=10)
    cls = p.cls(S)
    adj = p.func(f"{S}._adjust_trim_top")
    cfg = cfg_of(adj)
    # ensure_bounds helper
    eb = p.local_def(adj, "ensure_bounds")
    if eb is None:
        raise AnalysisError("_adjust_trim_top.ensure_bounds not found")
    rets = [n for n in eb.own_nodes() if isinstance(n, ast.Return)]
    prm = eb.params[0]
    # the locals by role: the content height (<canvas parameter>.rows()) and the view height (second component of size)
    CR = MR = None
    for n in adj.own_nodes():
        if isinstance(n, ast.Assign) and len(n.targets) == 1:
            t, val = n.targets[0], n.value
            if isinstance(t, ast.Name) and isinstance(val, ast.Call) and isinstance(val.func, ast.Attribute) and val.func.attr == "rows" and isinstance(val.func.value, ast.Name) and val.func.value.id == adj.params[1]:
                CR = t.id
            if isinstance(t, ast.Tuple) and len(t.elts) == 2 and isinstance(val, ast.Name) and val.id == adj.params[2] and isinstance(t.elts[1], ast.Name):
                MR = t.elts[1].id
    if CR is None or MR is None:
        raise AnalysisError("_adjust_trim_top: content height / view height locals not identified")
    txt = ast.unparse(rets[0].value) if len(rets) == 1 else ""
    D = f"{CR} - {MR}"
    ok_forms = {f"max(0, min({D}, {prm}))", f"max(0, min({prm}, {D}))", f"min(max(0, {prm}), {D})", f"min({D}, max(0, {prm}))", f"min(max({prm}, 0), {D})", f"max(min({prm}, {D}), 0)", f"max(min({D}, {prm}), 0)"}
    rr.inst("ensure_bounds body", True, {"ensure_bounds_returns": txt})
    if txt not in ok_forms:
        rr.add(finding("WRITER", eb, eb.node, f"ensure_bounds returns `{txt}`, which is not the value clamped to [0, canv_rows - maxrow]: the scroll position can leave the content", construct=f"ensure_bounds body {txt}"))
    # early return for content that fits
    fits = [n for n in cfg.nodes if n.kind == "test" and ast.unparse(n.ast) in (f"{CR} <= {MR}", f"{MR} >= {CR}")]
    for fi, _s, st in prog.attr_stores(p, cls, "_trim_top"):
        ident = f"{short(fi)}:{norm(st, 60)}"
        v = getattr(st, "value", None)
        vt = ast.unparse(v) if v is not None else ""
        if fi.name == "__init__":
            rr.inst(ident, True)
            if vt != "0":
                rr.add(finding("WRITER", fi, st, "Scrollable starts with a scroll position other than 0", construct=norm(st, 70)))
            continue
        if fi.name == "set_scrollpos":
            rr.inst(ident, True, {"writer": "set_scrollpos", "store": norm(st, 60)})
            if not (isinstance(v, ast.Call) and callee_name(v) == "int"):
                rr.add(finding("WRITER", fi, st, "set_scrollpos stores something other than int(position)", construct=norm(st, 70)))
            continue
        if fi is not adj:
            rr.inst(ident, True)
            rr.add(finding("WRITER", fi, st, f"_trim_top is written by {fi.name}(): only __init__, set_scrollpos and the clamping _adjust_trim_top may write the scroll position", construct=f"_trim_top written by {fi.name}"))
            continue
        sn = cfg.stmt_nodes(st)
        form = None
        if isinstance(st, ast.AugAssign):
            form = None
        elif isinstance(v, ast.Call) and callee_name(v) == "ensure_bounds":
            form = "ensure_bounds"
        elif isinstance(v, ast.Constant) and v.value == 0:
            form = "literal 0"
        elif isinstance(v, ast.Call) and callee_name(v) == "max" and len(v.args) == 2 and any(isinstance(a, ast.Constant) and a.value == 0 for a in v.args):
            form = "max(0, .)"
        elif vt == D:
            if fits and all(n not in ExcEngine._reach_without_edge(cfg, fits[0], "F") for n in sn):
                form = "canv_rows - maxrow (content taller than the view)"
        elif isinstance(v, ast.Name):
            tests = [n for n in cfg.nodes if n.kind == "test" and ast.unparse(n.ast) in (f"{vt} < self._trim_top", f"self._trim_top > {vt}")]
            if tests and all(n not in ExcEngine._reach_without_edge(cfg, tests[0], "T") for n in sn):
                form = "cursor row above the view"
        rr.inst(ident, True, {"writer": short(fi), "store": norm(st, 60), "form": form} if len(rr.samples) < 8 else None)
        if form is None:
            rr.add(finding("WRITER", fi, st, f"`{norm(st, 60)}` stores a scroll position that is not clamped to [0, canv_rows - maxrow] (accepted forms: ensure_bounds(.), max(0, .), 0, canv_rows - maxrow when the content is taller, the cursor row when it is above the view)", construct=f"unclamped _trim_top store: {norm(st, 60)}"))
    return rr


def rule_slice_translation(ctx: Ctx) -> RuleResult:
    p = ctx.p
    rr = RuleResult("PAIR", "C20.2", "render trims by self._trim_top, mouse_event adds self._trim_top to the row, get_scrollpos returns it", floor=3)
    rn = p.func(f"{S}.render")
    du = DefUse(rn)
    trims = [c for c in rn.own_nodes() if isinstance(c, ast.Call) and isinstance(c.func, ast.Attribute) and c.func.attr == "trim" and c.args]
    rr.inst("render trim", True, {"trim_calls": [norm(c, 40) for c in trims]})
    if len(trims) != 1:
        rr.add(finding("PAIR", rn, rn.node, f"{len(trims)} canv.trim(...) calls in Scrollable.render (one expected)", construct="trim call count"))
    else:
        t = du.text(trims[0].args[0], du.node_of(trims[0]))
        if t != "self._trim_top":
            rr.add(finding("PAIR", rn, trims[0], f"render trims the top by `{t}`, not by self._trim_top - the rows shown are not rows p..p+height for the reported position p", construct=f"trim amount {t}"))
        # the trim comes after _adjust_trim_top
        cfg = du.cfg
        adj = nodes_where(cfg, lambda x: isinstance(x, ast.Call) and callee_name(x) == "_adjust_trim_top")
        tn = nodes_where(cfg, lambda x: x is trims[0])
        if not adj or not all(cfg.dominated(n, adj) for n in tn):
            rr.add(finding("PAIR", rn, trims[0], "the canvas is trimmed before _adjust_trim_top() clamped the position", construct="trim before clamp"))
        # every return of render() - also the one for content that fits - comes after _adjust_trim_top(): the
        # position reported afterwards is the first row shown (0 when nothing is scrolled out)
        rets = [n for n in cfg.nodes if n.kind == "return"]
        rr.inst("position resolved before every return", True, {"returns": len(rets)})
        for r in rets:
            if not adj or not cfg.dominated(r, adj):
                rr.add(finding("PAIR", rn, r.stmt, f"`{norm(r.stmt, 40)}` returns a rendering without _adjust_trim_top() having resolved the position: get_scrollpos() keeps a stale value (e.g. 15 after the content shrank to fit and row 0 is shown)", construct=f"return without position reset: {norm(r.stmt, 40)}"))
    me = p.func(f"{S}.mouse_event")
    calls = [c for c in me.own_nodes() if isinstance(c, ast.Call) and isinstance(c.func, ast.Attribute) and c.func.attr == "mouse_event" and len(c.args) >= 5]
    rr.inst("mouse row translation", True)
    if not calls:
        raise AnalysisError("Scrollable.mouse_event no longer forwards to the wrapped widget")
    cfg = cfg_of(me)
    for c in calls:
        rowarg = c.args[4]
        cn = nodes_where(cfg, lambda x: x is c)
        adds = [n for n in cfg.nodes if isinstance(n.ast, ast.AugAssign) and isinstance(n.ast.op, ast.Add) and isinstance(n.ast.target, ast.Name) and isinstance(rowarg, ast.Name) and n.ast.target.id == rowarg.id and ast.unparse(n.ast.value) == "self._trim_top"]
        direct = ast.unparse(rowarg).replace(" ", "") in ("row+self._trim_top", "self._trim_top+row")
        if not direct and not (adds and all(cfg.dominated(n, adds) for n in cn) and len(adds) == 1):
            rr.add(finding("PAIR", me, c, "the row forwarded to the wrapped widget is not `row + self._trim_top` (added exactly once): clicks land on a different line than the one displayed", construct="mouse row not translated by _trim_top"))
    gs = p.func(f"{S}.get_scrollpos")
    rets = [n for n in gs.own_nodes() if isinstance(n, ast.Return)]
    rr.inst("get_scrollpos", True)
    if not rets or any(ast.unparse(r.value) != "self._trim_top" for r in rets if r.value is not None):
        rr.add(finding("PAIR", gs, gs.node, "get_scrollpos() does not return self._trim_top", construct="get_scrollpos return"))
    return rr


def _scrollbar_roles(p, rn, du):
    """Names of ScrollBar.render's locals by role (robust against renaming):
    (top, thumb, bottom) = the counts of the three row generators handed to CanvasCombine, in order;
    sb_width = the width of the SolidCanvas parts; ow_size = the tuple built from self._scrollbar_width;
    (maxcol, maxrow) = the unpacking of the size parameter."""
    roles = {}
    for c in rn.own_nodes():
        if isinstance(c, ast.Call) and callee_name(c) == "CanvasCombine" and c.args:
            rs = [x.args[0].id for x in ast.walk(c.args[0]) if isinstance(x, ast.Call) and isinstance(x.func, ast.Name) and x.func.id == "range" and x.args and isinstance(x.args[0], ast.Name)]
            if len(rs) == 3:
                roles["top"], roles["thumb"], roles["bottom"] = rs
    ws = {c.args[1].id for c in rn.own_nodes() if isinstance(c, ast.Call) and callee_name(c) == "SolidCanvas" and len(c.args) >= 2 and isinstance(c.args[1], ast.Name)}
    if len(ws) == 1:
        roles["sb_width"] = ws.pop()
    for n in rn.own_nodes():
        if isinstance(n, ast.Assign) and len(n.targets) == 1 and isinstance(n.targets[0], ast.Name) and isinstance(n.value, ast.Tuple) and "_scrollbar_width" in ast.unparse(n.value):
            roles["ow_size"] = n.targets[0].id
        if isinstance(n, ast.Assign) and isinstance(n.targets[0], ast.Tuple) and len(n.targets[0].elts) == 2 and isinstance(n.value, ast.Name) and n.value.id == rn.params[1] and all(isinstance(e, ast.Name) for e in n.targets[0].elts):
            roles["maxcol"], roles["maxrow"] = (e.id for e in n.targets[0].elts)
    missing = [k for k in ("top", "thumb", "bottom", "sb_width", "ow_size", "maxcol", "maxrow") if k not in roles]
    if missing:
        raise AnalysisError(f"ScrollBar.render: could not identify the locals playing the roles {missing}")
    return roles


def rule_scrollbar_parts(ctx: Ctx) -> RuleResult:
    p = ctx.p
    rr = RuleResult("PAIR", "C20.3", "ScrollBar: bottom part = maxrow - thumb_height - top_height; bar width = maxcol - child width; child drawn at (child width, maxrow); the position cannot exceed its maximum", floor=7)
    rn = p.func(f"{SB}.render")
    du = DefUse(rn)
    R = _scrollbar_roles(p, rn, du)

    def single(name):
        return [(dn, v) for dn, v, how in du.defs.get(name, []) if v is not None and isinstance(v, ast.AST)]

    b = single(R["bottom"])
    rr.inst("bottom remainder", True, {"roles": R})
    if len(b) != 1 or linear(b[0][1]) != {R["maxrow"]: 1, R["thumb"]: -1, R["top"]: -1}:
        rr.add(finding("PAIR", rn, b[0][0].stmt if b else rn.node, f"the bottom part is `{ast.unparse(b[0][1]) if b else '?'}`, not the remainder maxrow - thumb - top: the three parts do not sum to the view height", construct="bottom_height not the remainder"))
    # parts are non-negative: the top part is a share of the room (maxrow - thumb) or a constant stored only
    # when the room is tested to be there
    cfg = du.cfg
    for dn, v, how in du.defs.get(R["top"], []):
        if not isinstance(v, ast.AST):
            continue
        rr.inst(f"top part store {norm(dn.stmt, 40)}", True)
        if isinstance(v, ast.Constant) and isinstance(v.value, int) and v.value > 0:
            room_tests = []
            for t in cfg.nodes:
                if t.kind != "test":
                    continue
                for c in ast.walk(t.ast):
                    if isinstance(c, ast.Compare) and len(c.ops) == 1:
                        L = linear(ast.BinOp(left=c.left, op=ast.Sub(), right=c.comparators[0]))
                        if L is None:
                            continue
                        core = {k: x for k, x in L.items() if k != ""}
                        if (core == {R["maxrow"]: 1, R["thumb"]: -1} and isinstance(c.ops[0], (ast.Gt, ast.GtE))) or (core == {R["maxrow"]: -1, R["thumb"]: 1} and isinstance(c.ops[0], (ast.Lt, ast.LtE))):
                            room_tests.append(t)
            from ..rules.exc import ExcEngine

            if not any(dn not in ExcEngine._reach_without_edge(cfg, t, "T") for t in room_tests):
                rr.add(finding("PAIR", rn, dn.stmt, f"`{norm(dn.stmt, 40)}` gives the top part a fixed height without testing that the thumb leaves room (maxrow > thumb height): when the thumb fills the bar (a one-row view) the bottom part becomes negative and the bar is taller than the view", construct="top part constant without room test"))
    # the position never exceeds its maximum: top = int(room * pos / max(1, posmax)) stays within the room only if
    # pos <= posmax.  Where the total is an *estimate* the function corrects itself (relative mode, __length_hint__),
    # posmax = total - visible must be computed from a total that was raised to at least pos + visible.
    ratio = None
    for n in rn.own_nodes():
        if isinstance(n, ast.BinOp) and isinstance(n.op, ast.Div) and isinstance(n.right, ast.Call) and callee_name(n.right) == "max" and len(n.right.args) == 2:
            num = n.left.args[0] if isinstance(n.left, ast.Call) and callee_name(n.left) == "float" and n.left.args else n.left
            den = [a for a in n.right.args if isinstance(a, ast.Name)]
            if isinstance(num, ast.Name) and len(den) == 1:
                ratio = (num.id, den[0].id)
                ratio_node = n
    if ratio is None:
        raise AnalysisError("ScrollBar.render: the position ratio pos / max(1, posmax) was not found")
    P, PM = ratio
    # the ratio itself limited to 1: min(1.0, pos / max(1, posmax)).  get_scrollpos() is clamped by the scrolling
    # widget *for the size it is drawn at* - under a decoration (ScrollBar(LineBox(Scrollable))) that is smaller than
    # the size the bar computes posmax for, so the contract alone does not bound the ratio (fix 36713f7)
    clamped = any(isinstance(c, ast.Call) and callee_name(c) == "min" and any(a is ratio_node for a in c.args) and any(isinstance(a, ast.Constant) and a.value == 1 for a in c.args) for c in rn.own_nodes())
    for dn, v, how in du.defs.get(PM, []):
        if not (isinstance(v, ast.BinOp) and isinstance(v.op, ast.Sub) and isinstance(v.left, ast.Name)):
            continue
        A, B = v.left.id, v.right
        adefs = du.reaching(A, dn)
        pdefs = du.reaching(P, dn)
        by_contract = bool(pdefs) and all(isinstance(pv, ast.Call) and callee_name(pv) == "get_scrollpos" for pv, ph, pn in pdefs)
        want = linear(ast.BinOp(left=ast.Name(id=P, ctx=ast.Load()), op=ast.Add(), right=B))
        raised = bool(adefs) and all(isinstance(av, ast.Call) and callee_name(av) == "max" and any(linear(a) == want for a in av.args) for av, ah, an in adefs)
        rr.inst(f"position bound {norm(dn.stmt, 40)}", True, {"posmax": norm(dn.stmt, 50), "total_raised_to_pos_plus_visible": raised, "position_clamped_by_the_scrolled_widget": by_contract, "ratio_limited_to_1": clamped})
        if by_contract and not (raised or clamped):
            rr.add(finding("PAIR", rn, dn.stmt, f"`{norm(dn.stmt, 50)}` is computed for the size the bar hands to its child, `{P}` is clamped by the scrolling widget for the size it is really drawn at: with a decoration in between (ScrollBar(LineBox(Scrollable))) the position exceeds this maximum, the ratio {P} / {PM} is above 1 and is not limited - the top part outgrows the trough and the bar is taller than the view (WidgetError)", construct=f"{PM}: position ratio not limited to 1"))
        elif not (raised or by_contract):
            # (the limit on the ratio only keeps the bar inside the view; with a maximum below the position the thumb
            # sits at the bottom although the end of the content is not visible)
            rr.add(finding("PAIR", rn, dn.stmt, f"`{norm(dn.stmt, 50)}`: nothing makes `{A}` at least `{P} + {ast.unparse(B)}` (it is corrected to {[norm(av, 50) for av, ah, an in adefs]}), so with an under-estimated length the position exceeds its maximum, the top part outgrows the trough (ratio > 1) and the bar becomes taller than the view", construct=f"{PM}: total not raised to position + visible amount"))
    w = single(R["sb_width"])
    rr.inst("bar width remainder", True)
    from ..rules.geom import fold_subscripts

    okw = False
    got = "?"
    if len(w) == 1:
        at = w[0][0]
        L = linear(fold_subscripts(du.expand(w[0][1], at)))
        child_w = linear(fold_subscripts(du.expand(ast.parse(f"{R['ow_size']}[0]", mode="eval").body, at)))
        total = linear(fold_subscripts(du.expand(ast.Name(id=R["maxcol"], ctx=ast.Load()), at)))
        got = lin_str(L)
        if L is not None and child_w is not None and total is not None:
            want = dict(total)
            for k, v in child_w.items():
                want[k] = want.get(k, 0) - v
            okw = {k: v for k, v in want.items() if v} == L
    if not okw:
        rr.add(finding("PAIR", rn, w[0][0].stmt if w else rn.node, f"the bar width is `{got}`, not maxcol minus the width the child is drawn at: child and bar do not fill the line exactly", construct="sb_width not the remainder"))
    o = single(R["ow_size"])
    rr.inst("child size", True)
    ok = len(o) == 1 and isinstance(o[0][1], ast.Tuple) and len(o[0][1].elts) == 2 and ast.unparse(o[0][1].elts[1]) == R["maxrow"] and f"{R['maxcol']} - self._scrollbar_width" in ast.unparse(o[0][1].elts[0])
    if not ok:
        rr.add(finding("PAIR", rn, o[0][0].stmt if o else rn.node, "the child size is not (maxcol - bar width [clamped at 0], maxrow)", construct="ow_size form"))
    return rr


def rule_bar_width_floor(ctx: Ctx) -> RuleResult:
    """'the wrapped widget is given the view width minus the bar width' - render() takes the bar width from the raw
    attribute (`maxcol - self._scrollbar_width`), the property getter reports max(1, .).  The two only agree, and the
    bar only has columns to be drawn in, if what is *stored* is already at least 1: every store into
    self._scrollbar_width is max(1, ...).  Seed C20-r8b dropped the floor from the setter 'because the getter
    clamps': after scrollbar_width = 0 the widget reported 1, rendered the child at the full width and joined a bar
    of no columns (no scrollbar at all); a negative value made the canvas wider than the view."""
    p = ctx.p
    rr = RuleResult("WRITER", "C20.17", "every store into ScrollBar._scrollbar_width is floored at 1 (render() reads the raw attribute)", floor=1)
    cls = p.cls(SB)
    raw_reads = [short(f) for f in p.all_class_functions(cls) if any(isinstance(n, ast.Attribute) and n.attr == "_scrollbar_width" and isinstance(n.ctx, ast.Load) for n in f.own_nodes()) and not any(isinstance(c, ast.Call) and callee_name(c) == "max" and any(isinstance(y, ast.Attribute) and y.attr == "_scrollbar_width" for y in ast.walk(c)) and any(isinstance(a, ast.Constant) and a.value == 1 for a in c.args) for c in f.own_nodes())]
    for fi in p.all_class_functions(cls):
        for n in fi.own_nodes():
            if isinstance(n, ast.Assign) and any(isinstance(t, ast.Attribute) and t.attr == "_scrollbar_width" for t in n.targets):
                v = n.value
                ok = isinstance(v, ast.Call) and callee_name(v) == "max" and any(isinstance(a, ast.Constant) and isinstance(a.value, int) and a.value >= 1 for a in v.args)
                rr.inst(f"{short(fi)}: {norm(n, 50)}", True, {"store": f"{short(fi)}: {norm(n, 60)}", "floored_at_1": ok, "raw_readers": raw_reads})
                if not ok and raw_reads:
                    rr.add(finding("WRITER", fi, n, f"`{norm(n, 60)}` stores the bar width without the floor of 1 while {raw_reads} read(s) the raw attribute: with 0 the child gets the whole view width and a bar of no columns is joined on (tall content, no scrollbar), with a negative value the canvas is wider than the view - and scrollbar_width still reports 1", construct="_scrollbar_width stored without max(1, .)"))
    return rr


def rule_forwarding(ctx: Ctx) -> RuleResult:
    p = ctx.p
    rr = RuleResult("ORDER", "C20.4", "Scrollable.keypress sets a scroll action only when the child was not offered the key or returned it unhandled", floor=2)
    kp = p.func(f"{S}.keypress")
    cfg = cfg_of(kp)
    child = nodes_where(cfg, lambda x: isinstance(x, ast.Call) and isinstance(x.func, ast.Attribute) and x.func.attr == "keypress" and not (isinstance(x.func.value, ast.Name) and x.func.value.id == kp.self_name))
    stores = [n for n in cfg.nodes if isinstance(n.ast, ast.Assign) and any(isinstance(t, ast.Attribute) and t.attr == "_scroll_action" for t in n.ast.targets)]
    if not child or not stores:
        raise AnalysisError("Scrollable.keypress: child keypress call / _scroll_action stores not found")
    rr.inst("child offered first", True, {"child_calls": len(child), "action_stores": len(stores)})
    # the child's result is stored into the key variable
    for c in child:
        a = c.ast
        if not (isinstance(a, ast.Assign) and isinstance(a.targets[0], ast.Name) and a.targets[0].id == kp.params[2]):
            rr.add(finding("ORDER", kp, c.stmt, "the wrapped widget's keypress result is not stored back into `key`: a key the child handled is still interpreted as a scroll command", construct="child result not assigned to key"))
    # after the child call, every path to a scroll-action store passes the `key is None` test on its false edge
    tests = [n for n in cfg.nodes if n.kind == "test" and ast.unparse(n.ast) in (f"{kp.params[2]} is None", f"not {kp.params[2]}")]
    rr.inst("handled key returns before scrolling", True)
    for c in child:
        reach = set()
        work = [c]
        while work:
            n = work.pop()
            for t, lab in n.succ:
                if lab == "e" or t in reach:
                    continue
                if n in tests:
                    if lab == "T":
                        # handled: must lead to a return without setting an action
                        sub = cfg.reachable_from_edges([(n, "T")])
                        if any(s in sub for s in stores):
                            rr.add(finding("ORDER", kp, n.stmt, "on the path where the wrapped widget handled the key (returned None) a scroll action can still be set: the key is used twice", construct="scroll action after handled key"))
                        continue
                    reach.add(t)
                    work.append(t)
                    continue
                reach.add(t)
                work.append(t)
        # a store reachable from the child call without passing any handled-test at all
        r2 = cfg.reachable([c], avoid=tests, labels=("n", "T", "F"))
        if any(s in r2 for s in stores):
            rr.add(finding("ORDER", kp, c.stmt, "a scroll action can be set after offering the key to the wrapped widget without testing whether it was handled", construct="no handled test between child keypress and scroll action"))
    return rr


def rule_size_memo(ctx: Ctx) -> RuleResult:
    """ScrollBar.keypress / mouse_event forward to the wrapped widget with the size remembered in
    _original_widget_size: it must be the size the widget was last *rendered* at - the full size when no bar is
    drawn, the narrowed one when it is."""
    p = ctx.p
    rr = RuleResult("PAIR", "C20.9", "ScrollBar remembers, for keypress()/mouse_event(), exactly the size it handed to the wrapped widget's render()", floor=3)
    rn = p.func(f"{SB}.render")
    funcs = [rn] + [f for f in p.functions.values() if f.parent is rn]

    def stores(f):
        return [n for n in f.own_nodes() if isinstance(n, ast.Assign) and any(isinstance(t, ast.Attribute) and t.attr == "_original_widget_size" for t in n.targets)]

    def renders(f):
        return [c for c in f.own_nodes() if isinstance(c, ast.Call) and isinstance(c.func, ast.Attribute) and c.func.attr == "render" and c.args and not (isinstance(c.func.value, ast.Call))]

    outer = stores(rn)
    n = 0
    for f in funcs:
        for c in renders(f):
            if isinstance(c.func.value, ast.Name) and c.func.value.id in ("canvas",):
                continue
            n += 1
            x = ast.unparse(c.args[0])
            st = stores(f) or (outer if f is not rn else [])
            vals = sorted({ast.unparse(s_.value) for s_ in st})
            rr.inst(f"{short(f)}:{norm(c, 40)}", True, {"render_call": f"{short(f)}: {norm(c, 50)}", "remembered": vals})
            if vals != [x]:
                rr.add(finding("PAIR", f, c, f"the wrapped widget is rendered at `{x}` but the size remembered for keypress()/mouse_event() is {vals or 'not stored'}: keys and clicks are handled on a layout of a different width than the one on screen", construct=f"render at {x}, remembered {','.join(vals) or 'nothing'}"))
    if n < 2:
        raise AnalysisError("ScrollBar.render: the two render calls of the wrapped widget (with / without bar) were not found")
    for m in ("keypress", "mouse_event"):
        fi = p.func(f"{SB}.{m}")
        du = DefUse(fi)
        calls = [c for c in fi.own_nodes() if isinstance(c, ast.Call) and isinstance(c.func, ast.Attribute) and c.func.attr == m and c.args]
        rr.inst(f"{m} forwards the remembered size", True)
        for c in calls:
            t = du.text(c.args[0], du.node_of(c))
            if t != "self._original_widget_size":
                rr.add(finding("PAIR", fi, c, f"{m}() forwards size `{t}` to the wrapped widget, not the size it was rendered at (self._original_widget_size)", construct=f"{m} forwards {t}"))
        if not calls:
            raise AnalysisError(f"ScrollBar.{m} no longer forwards to the wrapped widget")
    return rr


def rule_positions_opaque(ctx: Ctx) -> RuleResult:
    """List-walker positions are arbitrary hashables (SimpleListWalker happens to use 0-based indexes; a custom walker
    may use ids, sparse or negative numbers, tuples).  The scrolling protocol reports *counts*: what
    get_first_visible_pos() returns must be counted by walking get_prev(), never a position value itself, and no code
    of ListBox may single out integer positions (`isinstance(pos, int)`)."""
    p = ctx.p
    rr = RuleResult("KIND", "C20.10", "ListBox.get_first_visible_pos returns a count, not a walker position; positions are never tested for being integers", floor=1)
    fi = p.func("urwid.widget.listbox.ListBox.get_first_visible_pos")
    du = DefUse(fi)

    def is_position(e, at, depth=0, seen=None):
        seen = seen if seen is not None else set()
        if depth > 6:
            return False
        if isinstance(e, ast.Attribute) and e.attr in ("position", "focus_position"):
            return True
        if isinstance(e, ast.Subscript) and isinstance(e.value, ast.Call) and callee_name(e.value) in ("get_prev", "get_next", "get_focus"):
            return True
        if isinstance(e, ast.Name):
            for v, how, dn in du.reaching(e.id, at):
                if (e.id, dn.id) in seen or not isinstance(v, ast.AST):
                    continue
                seen.add((e.id, dn.id))
                if is_position(v, dn, depth + 1, seen):
                    return True
        return False

    for r in [n for n in du.cfg.nodes if n.kind == "return" and n.ast.value is not None]:
        rr.inst(f"return {norm(r.ast.value, 30)}", True, {"return": norm(r.ast, 40)})
        if is_position(r.ast.value, r):
            rr.add(finding("KIND", fi, r.stmt, f"`{norm(r.ast, 40)}` hands a walker position to the scroll bar as if it were the number of items above the view: with a walker whose positions are not 0-based indexes (ids 1000.., sparse, negative) the thumb is placed by a meaningless number", construct="walker position returned as a count"))
    lb = p.cls("urwid.widget.listbox.ListBox")
    for f in p.all_class_functions(lb):
        for c in f.own_nodes():
            if isinstance(c, ast.Call) and isinstance(c.func, ast.Name) and c.func.id == "isinstance" and len(c.args) == 2 and ast.unparse(c.args[1]) == "int" and "pos" in ast.unparse(c.args[0]):
                rr.inst(f"{short(f)}:{norm(c, 40)}", True)
                rr.add(finding("KIND", f, c, f"`{norm(c, 50)}` treats integer walker positions specially; positions are opaque", construct=f"integer test on a position: {norm(c, 50)}"))
    return rr


def rule_fit_test(ctx: Ctx) -> RuleResult:
    """Scrollable.render may hand the padded full canvas back untrimmed only when it fits the view in *both*
    directions; fixed content that is wider than the view but not taller still has to go through the right trim."""
    from ..rules.exc import ExcEngine

    p = ctx.p
    rr = RuleResult("GUARD", "C20.11", "Scrollable.render returns the untrimmed canvas only under `cols fit and rows fit`", floor=1)
    rn = p.func(f"{S}.render")
    du = DefUse(rn)
    cfg = du.cfg
    # names by role: (canvas cols, canvas rows) from `x, y = canv.cols(), canv.rows()`; (maxcol, maxrow) from the size unpack
    cc = cr = mc = mr = None
    for n in rn.own_nodes():
        if isinstance(n, ast.Assign) and isinstance(n.targets[0], ast.Tuple) and len(n.targets[0].elts) == 2 and all(isinstance(e, ast.Name) for e in n.targets[0].elts):
            a, b = n.targets[0].elts
            if isinstance(n.value, ast.Tuple) and len(n.value.elts) == 2 and all(isinstance(v, ast.Call) and isinstance(v.func, ast.Attribute) for v in n.value.elts) and n.value.elts[0].func.attr == "cols" and n.value.elts[1].func.attr == "rows":
                cc, cr = a.id, b.id
            if isinstance(n.value, ast.Name) and n.value.id == rn.params[1]:
                mc, mr = a.id, b.id
    if None in (cc, cr, mc, mr):
        raise AnalysisError("Scrollable.render: canvas size / view size locals not identified")
    trims = nodes_where(cfg, lambda x: isinstance(x, ast.Call) and isinstance(x.func, ast.Attribute) and x.func.attr in ("trim", "trim_end", "pad_trim_left_right") and "-" in ast.unparse(x))
    rets = [n for n in cfg.nodes if n.kind == "return" and n.ast.value is not None]
    for r in rets:
        # a return that can be reached without passing the trim section
        first_trim_tests = [t for t in cfg.nodes if t.kind == "test" and any(t is x or x in cfg.reachable_from_edges([(t, "T")], avoid=[y for y in cfg.nodes if y.kind == "test" and y is not t]) for x in trims)]
        early = not any(cfg.dominated(r, [t]) for t in first_trim_tests) if first_trim_tests else False
        if not early:
            continue
        conds = set()
        for t in cfg.nodes:
            if t.kind == "test" and r not in ExcEngine._reach_without_edge(cfg, t, "T"):
                conds.add(ast.unparse(t.ast))
        txt = " and ".join(sorted(conds))
        fits_c = any(k in txt for k in (f"{cc} <= {mc}", f"{mc} >= {cc}"))
        fits_r = any(k in txt for k in (f"{cr} <= {mr}", f"{mr} >= {cr}"))
        rr.inst(f"early return {norm(r.ast, 30)}", True, {"return": norm(r.ast, 40), "under": sorted(conds)})
        if not (fits_c and fits_r):
            rr.add(finding("GUARD", rn, r.stmt, f"`{norm(r.ast, 40)}` returns the canvas before the trim section under {sorted(conds)}; it is only right when the canvas fits in both directions ({cc} <= {mc} and {cr} <= {mr}): fixed content wider than the view comes back wider than the requested size", construct="untrimmed return without both fit tests"))
    return rr


QUERIES = {"rows_max", "get_scrollpos", "get_visible_amount", "get_first_visible_pos", "rows", "pack"}


def rule_query_size(ctx: Ctx) -> RuleResult:
    p = ctx.p
    rr = RuleResult("GEOM", "C20.5", "the thumb geometry derives only from queries made with the size the wrapped widget is drawn at (ow_size)", floor=4)
    rn = p.func(f"{SB}.render")
    du = DefUse(rn)
    R = _scrollbar_roles(p, rn, du)
    start_node = None
    for n in du.cfg.nodes:
        if isinstance(n.ast, ast.Assign) and any(isinstance(t, ast.Name) and t.id == R["bottom"] for t in n.ast.targets):
            start_node = n
    if start_node is None:
        raise AnalysisError("ScrollBar.render: the assignment of the bottom part was not found")
    skip = {R["maxrow"], R["maxcol"], rn.params[1], "focus", "max", "min", "round", "float", "int"}
    seen = set()
    work = [(R["thumb"], start_node), (R["top"], start_node)]
    calls = []
    while work:
        nm, at = work.pop()
        for v, how, dn in du.reaching(nm, at):
            if (nm, dn.id) in seen or v is None or not isinstance(v, ast.AST):
                continue
            seen.add((nm, dn.id))
            for x in ast.walk(v):
                if isinstance(x, ast.Call) and isinstance(x.func, ast.Attribute) and x.func.attr in QUERIES and x.args:
                    calls.append((nm, x, dn))
                elif isinstance(x, ast.Name) and isinstance(x.ctx, ast.Load) and x.id in du.defs and x.id not in skip:
                    work.append((x.id, dn))
    for nm, c, dn in calls:
        ident = f"{norm(c, 50)}"
        arg = du.text(c.args[0], dn)
        want = du.text(ast.Name(id=R["ow_size"], ctx=ast.Load()), dn)
        rr.inst(ident, True, {"geometry_input": nm, "query": norm(c, 60), "size_argument": ast.unparse(c.args[0])} if len(rr.samples) < 6 else None)
        if arg != want:
            rr.add(finding("GEOM", rn, c, f"`{norm(c, 60)}` feeds the thumb geometry (through `{nm}`) but asks the wrapped widget about size `{ast.unparse(c.args[0])}`, not the size it is drawn at (ow_size): content that wraps differently one column narrower gives a position beyond the computed maximum and the bar parts no longer sum to the view height", construct=f"thumb input from {norm(c, 50)} with {ast.unparse(c.args[0])}"))
    return rr


def rule_one_shot_consumed(ctx: Ctx) -> RuleResult:
    """A scrolling key does not move the view itself: keypress() leaves a one-shot request in `_scroll_action` and
    the next render consumes it in _adjust_trim_top().  'Consumes' has to hold on *every* path through that
    function - also on the one where the content fits and the position is simply reset - otherwise the request
    survives and is applied to some later rendering (after a resize that makes the content overflow the view starts
    at row 1 or at the end instead of row 0)."""
    p = ctx.p
    rr = RuleResult("PASS", "C20.13", "Scrollable._adjust_trim_top resets the one-shot scroll request on every path", floor=1)
    fi = p.func(f"{S}._adjust_trim_top")
    cfg = cfg_of(fi)
    kp = p.func(f"{S}.keypress")
    reqs = {t.attr for n in kp.own_nodes() if isinstance(n, ast.Assign) for t in n.targets if isinstance(t, ast.Attribute) and isinstance(t.value, ast.Name) and t.value.id == kp.self_name and isinstance(n.value, (ast.Name, ast.Attribute, ast.Constant)) and "action" in t.attr}
    if not reqs:
        raise AnalysisError("Scrollable.keypress: the attribute holding the scroll request was not found")
    for attr in sorted(reqs):
        resets = [n for n in cfg.nodes if isinstance(n.ast, ast.Assign) and any(isinstance(t, ast.Attribute) and t.attr == attr for t in n.ast.targets) and isinstance(n.ast.value, ast.Constant) and n.ast.value.value is None]
        r = cfg.reachable([cfg.entry], avoid=resets, include_start=True, labels=("n", "T", "F"))
        ok = bool(resets) and cfg.exit not in r
        rr.inst(f"{attr} consumed", True, {"request": attr, "resets": [norm(n.stmt, 40) for n in resets], "on_every_path": ok})
        if not ok:
            path = cfg.witness_path(cfg.entry, [cfg.exit], avoid=resets, labels=("n", "T", "F"))
            via = next((norm(n.ast, 40) for n in reversed(path or []) if n.kind == "test"), "?")
            rr.add(finding("PASS", fi, fi.node, f"a path through _adjust_trim_top (via `{via}`) ends without `self.{attr} = None`: a scrolling key pressed while the whole content is visible is not discarded by that rendering and is applied to a later one - after a resize the view starts away from row 0", construct=f"{attr} not consumed on every path"))
    return rr


def _trim_mirror(ctx: Ctx) -> RuleResult:
    """Scrollable cuts its slice with canv.trim(p): rows p.. of the wrapped canvas only if a second top trim adds to the
    offset a view already has (shared with C02.16)."""
    from . import c02

    return c02.rule_trim_mirror(ctx, "C20.16")


def rule_forward_flag(ctx: Ctx) -> RuleResult:
    """'Keys the wrapped widget handles are not also used for scrolling': Scrollable.keypress() offers a key to the
    wrapped widget only when `_forward_keypress` says so, and that flag is worked out by render() from what is in
    view.  It describes the *last* rendering: every normal way out of render() stores it - also the early return for
    content that fits (before fix 2cfcfcf the flag stayed None there: an Edit in a Scrollable whose content fits never
    saw a key, and a stale False survived the view being enlarged)."""
    p = ctx.p
    rr = RuleResult("PASS", "C20.15", "every normal return of Scrollable.render() has stored _forward_keypress (the flag keypress() routes by describes the rendering just made)", floor=2)
    fi = p.func("urwid.widget.scrollable.Scrollable.render")
    kp = p.func("urwid.widget.scrollable.Scrollable.keypress")
    flags = sorted({n.attr for t in kp.own_nodes() if isinstance(t, ast.If) for n in ast.walk(t.test) if isinstance(n, ast.Attribute) and isinstance(n.value, ast.Name) and n.value.id == kp.self_name and any(isinstance(c, ast.Call) and isinstance(c.func, ast.Attribute) and c.func.attr == "keypress" for b in t.body for c in ast.walk(b))})
    # flags written by render (not constructor options)
    flags = [f for f in flags if any(isinstance(n, ast.Attribute) and n.attr == f and isinstance(n.ctx, ast.Store) for n in fi.own_nodes())]
    if not flags:
        raise AnalysisError("Scrollable: the flag keypress() tests before forwarding (and render() writes) was not found")
    cfg = cfg_of(fi)
    for f in flags:
        stores = [n for n in cfg.nodes if isinstance(n.ast, ast.Assign) and any(isinstance(t, ast.Attribute) and t.attr == f for t in n.ast.targets)]
        for r in [n for n in cfg.nodes if n.kind == "return"]:
            ok = not (r in cfg.reachable([cfg.entry], avoid=stores, labels=("n", "T", "F"), include_start=True))
            rr.inst(f"{f}: return at L{r.lineno}", True, {"flag": f, "return": norm(r.ast, 40), "stored_on_every_path_to_it": ok})
            if not ok:
                rr.add(finding("PASS", fi, r.ast, f"render() can return here without having stored self.{f}: keypress() then routes by what an earlier rendering (or the constructor) left there - content that fits the view never gets its keys (None), or a False from a scrolled-out cursor survives the view being enlarged", construct=f"return without storing {f}"))
    return rr


def rule_raw_position_arithmetic(ctx: Ctx) -> RuleResult:
    """Scrollable.set_scrollpos() accepts positions counted from the end (negative numbers); they become row numbers
    only in the next rendering, and get_scrollpos() hands the raw value back until then.  Code that computes a new
    position *from* get_scrollpos() (the wheel handling of ScrollBar.mouse_event) therefore has to normalise a
    negative value first - a test `pos < 0` dominating the arithmetic."""
    p = ctx.p
    rr = RuleResult("GUARD", "C20.14", "arithmetic on a position read with get_scrollpos() is made only after a negative (from-the-end) value was normalised", floor=1)
    from ..rules.defuse import DefUse

    fi = p.func(f"{SB}.mouse_event")
    du = DefUse(fi)
    cfg = du.cfg
    pos_names = {t.id for n in fi.own_nodes() if isinstance(n, ast.Assign) and isinstance(n.value, ast.Call) and callee_name(n.value) == "get_scrollpos" for t in n.targets if isinstance(t, ast.Name)}
    if not pos_names:
        raise AnalysisError("ScrollBar.mouse_event: no position read with get_scrollpos() found")
    ar = [n for n in cfg.nodes if n.ast is not None and n.kind not in ("for", "with", "handler", "test") and any(isinstance(b, ast.BinOp) and isinstance(b.op, (ast.Add, ast.Sub)) and isinstance(b.left, ast.Name) and b.left.id in pos_names and isinstance(b.right, ast.Constant) for b in ast.walk(n.ast)) and any(isinstance(c, ast.Call) and callee_name(c) == "set_scrollpos" for c in ast.walk(n.ast))]
    tests = [t for t in cfg.nodes if t.kind == "test" and isinstance(t.ast, ast.Compare) and isinstance(t.ast.left, ast.Name) and t.ast.left.id in pos_names and isinstance(t.ast.ops[0], ast.Lt) and isinstance(t.ast.comparators[0], ast.Constant) and t.ast.comparators[0].value == 0]
    for n in ar:
        ok = bool(tests) and cfg.dominated(n, tests)
        rr.inst(norm(n.stmt, 50), True, {"arithmetic": norm(n.stmt, 60), "normalised_first": ok})
        if not ok:
            rr.add(finding("GUARD", fi, n.stmt, f"`{norm(n.stmt, 50)}` computes the new position from the raw get_scrollpos() value: after set_scrollpos(-1) (bottom) and before the next rendering that value is still -1, so a wheel step lands at the top instead of one row above the bottom", construct=f"arithmetic on an unnormalised position: {norm(n.stmt, 50)}"))
    if not ar:
        raise AnalysisError("ScrollBar.mouse_event: the wheel arithmetic on the position was not found")
    return rr


def run(ctx: Ctx):
    p = ctx.p
    return [
        rule_trim_writers(ctx),
        rule_slice_translation(ctx),
        dim.run_dim(p, "C20.3a", [MOD], floor=8, exceptions={}, description="no cols/rows confusion in scrollable.py"),
        posbound.run_posbound(p, "C20.3b", [MOD], floor=1),
        inv.run_inv_render_write(p, "C20.12", floor=3, exceptions=INV_RENDER_EXCEPTIONS, only_classes={"Scrollable"}),
        rule_scrollbar_parts(ctx),
        rule_forwarding(ctx),
        rule_query_size(ctx),
        rule_size_memo(ctx),
        rule_positions_opaque(ctx),
        rule_fit_test(ctx),
        rule_one_shot_consumed(ctx),
        rule_raw_position_arithmetic(ctx),
        rule_forward_flag(ctx),
        _trim_mirror(ctx),
        fresh.run_fresh(p, "C20.7", ["urwid.canvas"], floor=30),
        inv.run_inv(p, "C20.6", floor_classes=2, floor_nontrivial=1, exceptions=INV_EXCEPTIONS, only_classes={"Scrollable", "ScrollBar"}),
        rule_bar_width_floor(ctx),
        fwd.run_fwd(p, "C20.8", ("urwid.widget.scrollable", "urwid.widget.listbox"), floor=20, description="the scrolling protocol (get_scrollpos, rows_max, get_first_visible_pos, ...) and the renderers pass the focus flag on: the position is computed for the rendering that is shown"),
    ]


_F = "urwid/widget/scrollable.py"
MUTANTS = [
    Mut("twin-scrollbar-ratio-min-args-swapped", "urwid/widget/scrollable.py", "ScrollBar.render", "top_weight = min(1.0, float(pos) / max(1, posmax))", "top_weight = min(float(pos) / max(1, posmax), 1.0)", twin=True),
    Mut("twin-bar-width-floor-args-swapped", "urwid/widget/scrollable.py", "ScrollBar.scrollbar_width", "self._scrollbar_width = max(1, int(width))", "self._scrollbar_width = max(int(width), 1)", twin=True),
    Mut("scrollbar-ratio-unclamped", "urwid/widget/scrollable.py", "ScrollBar.render", "top_weight = min(1.0, float(pos) / max(1, posmax))", "top_weight = float(pos) / max(1, posmax)", "PAIR|widget.scrollable.ScrollBar.render|posmax: position ratio not limited to 1"),
    Mut("scrollable-fit-return-without-forward-flag", "urwid/widget/scrollable.py", "Scrollable.render", "            self._forward_keypress = canv.cursor is not None or ow.selectable()\n", "", "PASS|widget.scrollable.Scrollable.render|return without storing _forward_keypress"),
    Mut("wheel-arithmetic-on-raw-position", _F, "ScrollBar.mouse_event", "            if pos < 0:\n                # a position counted from the end that has not been rendered (normalised) yet\n                pos = max(0, ow.rows_max(ow_size, focus) - ow_size[1] + pos + 1)\n", "", "GUARD|widget.scrollable.ScrollBar.mouse_event"),
    Mut("scroll-request-survives-fitting-render", _F, "Scrollable._adjust_trim_top", "        action = self._scroll_action\n        self._scroll_action = None\n\n        _maxcol, maxrow = size", "        _maxcol, maxrow = size", "PASS|widget.scrollable.Scrollable._adjust_trim_top", also=[("        def ensure_bounds(new_trim_top: int) -> int:", "        action = self._scroll_action\n        self._scroll_action = None\n\n        def ensure_bounds(new_trim_top: int) -> int:")]),
    Mut("scrollable-position-moved-without-invalidate", "urwid/widget/scrollable.py", "Scrollable._adjust_trim_top", "        if self._trim_top != old_trim_top:\n            # canvases cached for other sizes show the old position\n            self._invalidate()\n", "", "INV-RENDER|widget.scrollable.Scrollable._adjust_trim_top"),
    Mut("scrollbar-estimate-not-raised-to-pos-plus-visible", "urwid/widget/scrollable.py", "ScrollBar.render", "ow_len = max(ow_len, pos + visible_amount)", "ow_len = max(ow_len, visible_amount, pos)", "PAIR|widget.scrollable.ScrollBar.render|posmax"),
    Mut("twin-scrollbar-estimate-respelled", "urwid/widget/scrollable.py", "ScrollBar.render", "ow_len = max(ow_len, pos + visible_amount)", "ow_len = max(visible_amount + pos, ow_len)", twin=True),
    Mut("first-visible-pos-returns-position", "urwid/widget/listbox.py", "ListBox.get_first_visible_pos", "        over = 0\n        _widget, first_pos = self.body.get_prev(first_pos)", "        if isinstance(first_pos, int):\n            return first_pos\n\n        over = 0\n        _widget, first_pos = self.body.get_prev(first_pos)", "KIND|widget.listbox.ListBox.get_first_visible_pos"),
    Mut("fit-test-rows-only", _F, "Scrollable.render", "        if canv_cols <= maxcol and canv_rows <= maxrow:\n            # Canvas is small enough to fit without trimming: nothing is scrolled out, reset the position", "        if canv_rows <= maxrow:\n            # fits vertically", "GUARD|widget.scrollable.Scrollable.render"),
    Mut("default-store-upper-only", _F, "Scrollable._adjust_trim_top", "            self._trim_top = ensure_bounds(trim_top)\n", "            self._trim_top = min(trim_top, canv_rows - maxrow)\n", "WRITER|widget.scrollable.Scrollable._adjust_trim_top"),
    Mut("ensure-bounds-no-floor", _F, "Scrollable._adjust_trim_top", "return max(0, min(canv_rows - maxrow, new_trim_top))", "return min(canv_rows - maxrow, new_trim_top)", "WRITER|"),
    Mut("line-down-unclamped", _F, "Scrollable._adjust_trim_top", "self._trim_top = ensure_bounds(trim_top + 1)", "self._trim_top = trim_top + 1", "WRITER|widget.scrollable.Scrollable._adjust_trim_top"),
    Mut("render-trims-local-copy", _F, "Scrollable.render", "        trim_top = self._trim_top\n        trim_end = canv_rows - maxrow - trim_top", "        trim_top = self._trim_top + 1\n        trim_end = canv_rows - maxrow - trim_top", "PAIR|widget.scrollable.Scrollable.render"),
    Mut("mouse-row-untranslated", _F, "Scrollable.mouse_event", "            row += self._trim_top\n", "", "PAIR|widget.scrollable.Scrollable.mouse_event"),
    Mut("bottom-not-remainder", _F, "ScrollBar.render", "bottom_height = maxrow - thumb_height - top_height", "bottom_height = maxrow - thumb_height", "PAIR|widget.scrollable.ScrollBar.render"),
    Mut("handled-key-also-scrolls", _F, "Scrollable.keypress", "            key = ow.keypress(ow_size, key)\n            if key is None:\n                return None\n", "            ow.keypress(ow_size, key)\n", "ORDER|widget.scrollable.Scrollable.keypress"),
    Mut("thumb-from-full-width", _F, "ScrollBar.render", "ow_rows_max = ow_base.rows_max(ow_size, focus)", "ow_rows_max = ow_base.rows_max(size, focus)", "GEOM|widget.scrollable.ScrollBar.render"),
    Mut("set-scrollpos-no-invalidate", _F, "Scrollable.set_scrollpos", "        self._trim_top = int(position)\n        self._invalidate()", "        self._trim_top = int(position)", "INV|widget.scrollable.Scrollable.set_scrollpos"),
    Mut("cursor-bound-closed", _F, "Scrollable.render", "if cursrow >= maxrow or cursrow < 0:", "if cursrow > maxrow or cursrow < 0:", "POSBOUND|"),
    Mut("fits-return-without-reset", _F, "Scrollable.render", "            self._adjust_trim_top(canv, size)\n            # everything is in view", "            # everything is in view", "PAIR|widget.scrollable.Scrollable.render|return without position reset"),
    Mut("top-nudge-without-room", _F, "ScrollBar.render", "if top_height == 0 and top_weight > 0 and maxrow > thumb_height:", "if top_height == 0 and top_weight > 0:", "PAIR|widget.scrollable.ScrollBar.render|top part constant"),
    Mut("twin-top-nudge-room-reordered", _F, "ScrollBar.render", "if top_height == 0 and top_weight > 0 and maxrow > thumb_height:", "if thumb_height < maxrow and top_height == 0 and top_weight > 0:", twin=True),
    Mut("listbox-scrollpos-ignores-focus", "urwid/widget/listbox.py", "ListBox.get_scrollpos", "self.calculate_visible(self._rendered_size, focus)", "self.calculate_visible(self._rendered_size)", "FOCUS-FWD|widget.listbox.ListBox.get_scrollpos"),
    Mut("twin-listbox-scrollpos-focus-keyword", "urwid/widget/listbox.py", "ListBox.get_scrollpos", "self.calculate_visible(self._rendered_size, focus)", "self.calculate_visible(self._rendered_size, focus=focus)", twin=True),
    Mut("size-memo-narrow-without-bar", _F, "ScrollBar.render", "            self._original_widget_size = size\n            return ow.render(size, focus)", "            self._original_widget_size = ow_size\n            return ow.render(size, focus)", "PAIR|widget.scrollable.ScrollBar.render"),
    Mut("twin-size-memo-also-outside", _F, "ScrollBar.render", "        sb_width = maxcol - ow_size[0]\n", "        sb_width = maxcol - ow_size[0]\n        self._original_widget_size = ow_size\n", twin=True, note="the nested renderers still store the size they use afterwards"),
    Mut("keypress-forwards-full-size", _F, "ScrollBar.keypress", "return self._original_widget.keypress(self._original_widget_size, key)", "return self._original_widget.keypress(size, key)", "PAIR|widget.scrollable.ScrollBar.keypress"),
    Mut("twin-ensure-bounds-reordered", _F, "Scrollable._adjust_trim_top", "return max(0, min(canv_rows - maxrow, new_trim_top))", "return max(0, min(new_trim_top, canv_rows - maxrow))", twin=True),
    Mut("twin-bottom-reordered", _F, "ScrollBar.render", "bottom_height = maxrow - thumb_height - top_height", "bottom_height = maxrow - top_height - thumb_height", twin=True),
    Mut("twin-mouse-row-direct", _F, "Scrollable.mouse_event", "            row += self._trim_top\n            return ow.mouse_event(ow_size, event, button, col, row, focus)", "            return ow.mouse_event(ow_size, event, button, col, row + self._trim_top, focus)", twin=True),
]
