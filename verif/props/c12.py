"""C12 - MainLoop delivers input in order and always restores the terminal."""

from __future__ import annotations

import ast
import re

from ..consteval import fold_module_name
from ..core import Ctx, RuleResult, finding, short, walk_no_nested
from ..model import AnalysisError, norm
from ..rules import wrap
from ..rules.util import callee_name, calls_in, cfg_of, node_exprs, nodes_where
from . import c13

EXPLANATION = (
    "Decided (necessary structural conditions of C12): (1) PASS: in MainLoop._run every path - normal, ExitMainLoop, arbitrary BaseException - from event_loop.run() to any exit passes "
    "screen.stop() (directly or through MainLoop.stop(), whose normal paths all reach it), the handler is catch-all and re-raises with a bare `raise`; the fallback screen loop runs in "
    "try/finally: screen.stop(); run() absorbs exactly ExitMainLoop; (2) PAIR: every private terminal mode switched on along Screen._start is switched off along Screen._stop (alternate "
    "buffer, bracketed paste, focus reporting, mouse tracking 1000/1002/1006; inverse-ness by constant folding of the escape strings), the cursor is shown again, cbreak is undone with the "
    "saved termios settings under the same guard, every signal whose handler signal_init replaces is restored by signal_restore, the tty signal keys are restored; BaseScreen.stop calls "
    "_stop iff started and clears the flag on every normal path, start sets it before _start; (3) WRAP: every callback handed to an exception-swallowing scheduling API - including the idle "
    "redraw - runs user code only inside the loop's capturing try (shared with C13); (4) ORDER: _update passes input through input_filter before process_input and hands on the filter's "
    "result; in process_input unhandled_input is not reachable when the widget handled the key/mouse event and is reached (or the redraw command) when it did not."
    ' Added after seed round 3: signal_restore is understood also when folded into a loop over (signal, saved handler) pairs and the restored expression may replace only a None / false saved value by SIG_DFL; (5) inside the batch loop of process_input the top widget (and anything derived from it) is read afresh for every event.'
    ' Round 4: a signal that signal_init() does not replace (SIGCONT) is restored only under a flag raised where it is replaced; the Twisted capturing wrapper catches BaseException (C13.1).'
    ' Round 5: (7) TrioEventLoop takes off at most the one ExceptionGroup layer its own nursery adds; (8) PAIR: every hook MainLoop.start() registers (idle callback, input watchers, descriptor-change signal, started screen) is released by stop() on all its normal paths and _run() passes stop() on the normal and on the exceptional exit (before fix 35c16b8 an exception-terminated run() left the watchers and the idle redraw in the event loop); a `finally` around event_loop.run() must not contain return / raise / break.'
    ' Round 6: (9) MEMO: every PopUpTarget entry point calls _update_overlay() before it routes to _current_widget (a batch of events is delivered without a redraw in between); (11) start() drops the cached screen size (fix for two sessions with a resize in between); (12) the flag that suppresses the signal-key snapshot in _start() is lowered where _stop() restores the snapshot (fix 69fb61c).'
    ' Round 7: (13) event-name words are looked for by containment (is_mouse_event: every mouse report reaches mouse_event()); (14) every write of Screen._stop() is followed by a flush() on every way to its end; (15) no event loop re-raises a caught exception object with a `from` clause that overwrites its __cause__ (fix 1942920).'
    " Round-8 triage: (16) ORDER: a 'window resize' is noted before the input filter runs and the cached size is dropped on that note (fix ed5b507)."
)
NOT_DECIDED = "That the terminal really ends up in its initial modes (needs a pty), delivery order across reads, redraw-before-wait timing, failures inside MainLoop.start()/stop() themselves."
ASSUMPTIONS = ["glib_loop.py cannot be imported here; its reports are informational only."]

ML = "urwid.event_loop.main_loop.MainLoop"
PSX = "urwid.display._posix_raw_display.Screen"
RAW = "urwid.display._raw_display_base.Screen"


def _calls_screen_stop(n):
    for r in node_exprs(n):
        for s in walk_no_nested(r):
            if isinstance(s, ast.Call) and isinstance(s.func, ast.Attribute) and s.func.attr == "stop" and ast.unparse(s.func.value) == "self.screen":
                return True
    return False


def rule_run_restores(ctx: Ctx) -> RuleResult:
    p = ctx.p
    rr = RuleResult("PASS", "C12.1", "every exit of MainLoop._run after the event loop ran passes screen.stop(); ExitMainLoop is absorbed only by run()", floor=5)
    run_ = p.func(f"{ML}._run")
    stop = p.func(f"{ML}.stop")
    cfg = cfg_of(run_)
    # MainLoop.stop(): all normal paths call screen.stop()
    scfg = cfg_of(stop)
    s_nodes = [n for n in scfg.nodes if _calls_screen_stop(n)]
    stop_ok = bool(s_nodes) and scfg.must_pass(scfg.entry, s_nodes, ends=[scfg.exit], labels=("n", "T", "F"))
    rr.inst("MainLoop.stop reaches screen.stop()", True, {"normal_paths_reach_screen_stop": stop_ok})
    if not stop_ok:
        rr.add(finding("PASS", stop, stop.node, "MainLoop.stop() has a normal path that does not call self.screen.stop()", construct="stop() without screen.stop()"))
    stoppers = [n for n in cfg.nodes if _calls_screen_stop(n)]
    if stop_ok:
        stoppers += nodes_where(cfg, lambda s: isinstance(s, ast.Call) and isinstance(s.func, ast.Attribute) and s.func.attr == "stop" and ast.unparse(s.func.value) == "self")
    runs = nodes_where(cfg, lambda s: isinstance(s, ast.Call) and isinstance(s.func, ast.Attribute) and s.func.attr == "run" and "event_loop" in ast.unparse(s.func.value))
    if not runs:
        raise AnalysisError("MainLoop._run no longer calls self.event_loop.run()")
    for r in runs:
        rr.inst("event_loop.run() -> screen.stop() on all paths", True, {"call": norm(r.stmt, 60)})
        if not cfg.must_pass(r, stoppers, ends=[cfg.exit, cfg.raise_exit]):
            path = cfg.witness_path(r, [cfg.exit, cfg.raise_exit], avoid=stoppers)
            kinds = " -> ".join(f"L{n.lineno}:{n.kind}" for n in path) if path else ""
            rr.add(finding("PASS", run_, r.stmt, f"after event_loop.run() there is a path to the exit of _run() that never calls screen.stop() ({kinds}): an exception from a callback (e.g. a BaseException the handler does not catch) leaves the terminal in raw mode", construct="exit without screen.stop()"))
        # handler re-raises unchanged
        for t, lab in r.succ:
            if lab == "e" and t.kind == "handler":
                h = t.ast
                rr.inst("handler re-raises unchanged", True, {"handler": norm(h, 40)})
                body_raises = [x for x in h.body if isinstance(x, ast.Raise)]
                if not body_raises or body_raises[-1].exc is not None:
                    rr.add(finding("PASS", run_, h, "the handler around event_loop.run() does not end with a bare `raise`: the callback's exception would not propagate unchanged", construct="handler does not re-raise"))
        # ... or a `finally` that cannot replace the exception in flight
        for tr in [t for t in run_.own_nodes() if isinstance(t, ast.Try) and t.finalbody and any(x is r.stmt for b in t.body for x in ast.walk(b))]:
            rr.inst("finally keeps the exception in flight", True, {"finally": norm(tr.finalbody[0], 40)})
            for x in [y for b in tr.finalbody for y in walk_no_nested(b) if isinstance(y, (ast.Return, ast.Raise, ast.Break, ast.Continue))]:
                rr.add(finding("PASS", run_, x, f"`{norm(x, 40)}` inside the `finally` around event_loop.run() replaces the exception in flight: the callback's exception would not propagate unchanged", construct="finally replaces the exception"))
    # fallback branch
    fb = nodes_where(cfg, lambda s: isinstance(s, ast.Call) and callee_name(s) == "_run_screen_event_loop")
    for f in fb:
        rr.inst("fallback loop -> screen.stop()", True)
        if not cfg.must_pass(f, [n for n in cfg.nodes if _calls_screen_stop(n)], ends=[cfg.exit, cfg.raise_exit]):
            rr.add(finding("PASS", run_, f.stmt, "the screen's own event loop can end (normally or by exception) without screen.stop()", construct="fallback exit without screen.stop()"))
    # run(): suppress(ExitMainLoop) only
    top = p.func(f"{ML}.run")
    sup = [n for n in top.own_nodes() if isinstance(n, ast.With)]
    types = set()
    for w in sup:
        for it in w.items:
            c = it.context_expr
            if isinstance(c, ast.Call) and callee_name(c) == "suppress":
                types |= {ast.unparse(a).split(".")[-1] for a in c.args}
    handlers = [h for n in top.own_nodes() if isinstance(n, ast.Try) for h in n.handlers]
    for h in handlers:
        types |= set(["BaseException"] if h.type is None else [ast.unparse(x).split(".")[-1] for x in (h.type.elts if isinstance(h.type, ast.Tuple) else [h.type])])
    rr.inst("run() absorbs exactly ExitMainLoop", True, {"absorbed": sorted(types)})
    if types != {"ExitMainLoop"}:
        rr.add(finding("PASS", top, top.node, f"MainLoop.run() absorbs {sorted(types) or 'nothing'} instead of exactly ExitMainLoop", construct="run() absorbs " + ",".join(sorted(types))))
    return rr


_MODE = re.compile(r"\x1b\[\?(\d+)([hl])")


_RELEASE_OF = {"enter_idle": "remove_enter_idle", "hook_event_loop": "unhook_event_loop", "connect_signal": "disconnect_signal", "start": "stop"}


def rule_run_releases(ctx: Ctx) -> RuleResult:
    """Everything MainLoop.start() registers - the idle callback, the screen's input watchers, the descriptor-change
    signal, the started screen - is released on every way out of _run() once the event loop ran: stop() releases each
    of them on all its normal paths and _run() passes stop() (or the release itself) on the normal exit and on the
    exceptional one.  Before fix 35c16b8 the exceptional exit only stopped the screen."""
    p = ctx.p
    rr = RuleResult("PAIR", "C12.8", "every hook MainLoop.start() adds (idle callback, input watchers, descriptor signal, started screen) is removed on every exit of _run() after the event loop ran - also the exceptional one", floor=8)
    start, stop, run_ = p.func(f"{ML}.start"), p.func(f"{ML}.stop"), p.func(f"{ML}._run")

    def named_calls(fi, seen=()):
        out = []
        for c in calls_in(fi):
            nm = callee_name(c)
            if nm:
                out.append((nm, c, fi))
            if isinstance(c.func, ast.Attribute) and isinstance(c.func.value, ast.Name) and c.func.value.id == fi.self_name and nm not in seen:
                g = p.func(f"{ML}.{nm}") if f"{ML}.{nm}" in p.functions else None
                if g is not None and g is not fi:
                    out += named_calls(g, (*seen, nm))
        return out

    acquired = []
    for nm, c, fi in named_calls(start):
        if nm in _RELEASE_OF and (nm != "start" or ast.unparse(c.func.value) == "self.screen") and nm not in [a for a, _ in acquired]:
            acquired.append((nm, f"{short(fi)}: {norm(c, 60)}"))
    if len(acquired) < 4:
        raise AnalysisError(f"MainLoop.start() acquisitions found: {acquired}; expected screen.start, connect_signal, hook_event_loop, enter_idle")
    scfg, cfg = cfg_of(stop), cfg_of(run_)
    runs = nodes_where(cfg, lambda s: isinstance(s, ast.Call) and isinstance(s.func, ast.Attribute) and s.func.attr == "run" and "event_loop" in ast.unparse(s.func.value))
    if not runs:
        raise AnalysisError("MainLoop._run no longer calls self.event_loop.run()")

    def rel_nodes(g, name):
        return nodes_where(g, lambda s: isinstance(s, ast.Call) and callee_name(s) == name and (name != "stop" or ast.unparse(s.func.value) == "self.screen"))

    self_stop = nodes_where(cfg, lambda s: isinstance(s, ast.Call) and isinstance(s.func, ast.Attribute) and s.func.attr == "stop" and ast.unparse(s.func.value) == "self")
    for acq, where in acquired:
        rel = _RELEASE_OF[acq]
        in_stop = rel_nodes(scfg, rel)
        ok_stop = bool(in_stop) and scfg.must_pass(scfg.entry, in_stop, ends=[scfg.exit], labels=("n", "T", "F"))
        rr.inst(f"stop() releases {acq}", True, {"acquired": where, "release": rel})
        if not ok_stop:
            rr.add(finding("PAIR", stop, stop.node, f"MainLoop.start() registers `{acq}` ({where}) but MainLoop.stop() has a normal path without `{rel}()`: the hook stays in the event loop after the main loop ended", construct=f"stop() without {rel}"))
        for r in runs:
            covers = rel_nodes(cfg, rel) + (self_stop if ok_stop else [])
            for end, what in ((cfg.exit, "normal"), (cfg.raise_exit, "exceptional")):
                rr.inst(f"_run {what} exit releases {acq}", True)
                if not cfg.must_pass(r, covers, ends=[end]):
                    rr.add(finding("PAIR", run_, r.stmt, f"after event_loop.run() the {what} exit of _run() can be reached without `{rel}()` (directly or through self.stop()): what start() registered with `{acq}` ({where}) stays registered - after an exception from a callback the event loop keeps the stopped screen's watchers / idle redraw, and a second run() doubles them", construct=f"{what} exit without {rel}"))
    return rr


def _escape_names(p, fi, branch_param=None, branch_value=None):
    """escape.NAME constants referenced by *fi* (optionally only on the branch where parameter == value)."""
    out = []
    nodes = fi.own_nodes()
    if branch_param is not None:
        nodes = []
        for st in fi.node.body:
            if isinstance(st, ast.If) and isinstance(st.test, ast.Name) and st.test.id == branch_param:
                for s in st.body if branch_value else st.orelse:
                    nodes += list(ast.walk(s))
            else:
                nodes += list(ast.walk(st))
    for n in nodes:
        if isinstance(n, ast.Attribute) and isinstance(n.value, ast.Name) and n.value.id == "escape" and n.attr.isupper():
            out.append((n.attr, n))
    return out


def _guard_of(fi, node):
    """text of the innermost enclosing `if` test (or '')"""
    par = {}
    for n in ast.walk(fi.node):
        for ch in ast.iter_child_nodes(n):
            par[id(ch)] = n
    cur = node
    while id(cur) in par:
        up = par[id(cur)]
        if isinstance(up, ast.If) and any(cur is s or any(x is cur for x in ast.walk(s)) for s in up.body):
            return ast.unparse(up.test)
        cur = up
    return ""


def rule_mode_pairs(ctx: Ctx) -> RuleResult:
    p = ctx.p
    rr = RuleResult("PAIR", "C12.2", "every terminal mode / setting acquired along Screen._start is released along Screen._stop", floor=9)
    esc = p.modules["urwid.display.escape"]
    psx = p.cls(PSX)
    start, stop = p.func(f"{PSX}._start"), p.func(f"{PSX}._stop")
    mt = p.func(f"{RAW}._mouse_tracking")
    smrb = p.func(f"{RAW}._stop_mouse_restore_buffer")
    enable_param = mt.params[1]
    acquire = [(nm, n, start) for nm, n in _escape_names(p, start)] + [(nm, n, mt) for nm, n in _escape_names(p, mt, enable_param, True)]
    release = [(nm, n, stop) for nm, n in _escape_names(p, stop)] + [(nm, n, smrb) for nm, n in _escape_names(p, smrb)] + [(nm, n, mt) for nm, n in _escape_names(p, mt, enable_param, False)]
    # stop must call the helpers we included
    for callee in ("_stop_mouse_restore_buffer",):
        if not list(calls_in(stop, callee)):
            rr.add(finding("PAIR", stop, stop.node, f"Screen._stop no longer calls {callee}()", construct=f"_stop without {callee}"))
    if not any(isinstance(a, ast.Constant) and a.value is False for c in calls_in(smrb, "_mouse_tracking") for a in c.args):
        rr.add(finding("PAIR", smrb, smrb.node, "_stop_mouse_restore_buffer no longer switches mouse tracking off (`self._mouse_tracking(False)`)", construct="mouse tracking not switched off"))
    on, off = {}, {}
    for nm, n, fi in acquire:
        s = fold_module_name(p, esc, nm)
        for num, hl in _MODE.findall(s):
            if hl == "h":
                on[num] = (nm, n, fi)
    for nm, n, fi in release:
        s = fold_module_name(p, esc, nm)
        for num, hl in _MODE.findall(s):
            if hl == "l":
                off[num] = (nm, n, fi)
    for num, (nm, n, fi) in sorted(on.items()):
        g_on = _guard_of(fi, n)
        ident = f"mode ?{num} ({nm})"
        ok = num in off
        g_off = _guard_of(off[num][2], off[num][1]) if ok else None
        rr.inst(ident, True, {"mode": f"?{num}", "on": nm, "off": off[num][0] if ok else None, "guard_on": g_on, "guard_off": g_off})
        if not ok:
            rr.add(finding("PAIR", fi, n, f"private mode ?{num} is switched on by escape.{nm} along _start but no constant written along _stop switches it off (ESC[?{num}l): the terminal is left in that mode", construct=f"mode ?{num} never reset"))
        elif g_on.startswith("self.") and g_off is not None and g_off != g_on and g_off.startswith("self."):
            rr.add(finding("PAIR", off[num][2], off[num][1], f"mode ?{num} is switched on under `{g_on}` but off under `{g_off}`", construct=f"mode ?{num} guards differ"))
    # cursor shown again
    rr.inst("cursor shown on stop", True)
    if not any(nm == "SHOW_CURSOR" for nm, _, _ in release):
        rr.add(finding("PAIR", smrb, smrb.node, "no SHOW_CURSOR is written along Screen._stop: the cursor stays hidden after the program ends", construct="SHOW_CURSOR missing on stop"))
    # cbreak <-> tcsetattr(saved)
    rr.inst("cbreak undone with saved settings", True)
    setc = [c for c in start.own_nodes() if isinstance(c, ast.Call) and ast.unparse(c.func) == "tty.setcbreak"]
    save = [n for n in start.own_nodes() if isinstance(n, ast.Assign) and isinstance(n.value, ast.Call) and ast.unparse(n.value.func) == "termios.tcgetattr"]
    rest = [c for c in stop.own_nodes() if isinstance(c, ast.Call) and ast.unparse(c.func) == "termios.tcsetattr"]
    if setc:
        saved_attr = ast.unparse(save[0].targets[0]) if save else None
        if not save or not rest or saved_attr not in [ast.unparse(a) for c in rest for a in c.args]:
            rr.add(finding("PAIR", stop, stop.node, "cbreak mode set in _start is not undone in _stop by termios.tcsetattr(..., <settings saved by tcgetattr in _start>)", construct="tty settings not restored"))
        else:
            g1, g2 = _guard_of(start, setc[0]), _guard_of(stop, rest[0])
            if g1 != g2:
                rr.add(finding("PAIR", stop, rest[0], f"tty settings are changed under `{g1}` but restored under `{g2}`", construct="tty restore guard differs"))
            cfg = cfg_of(start)
            sv = cfg.stmt_nodes(save[0])
            sc = nodes_where(cfg, lambda s: s is setc[0])
            if not all(cfg.dominated(x, sv) for x in sc):
                rr.add(finding("PAIR", start, setc[0], "tty.setcbreak() can run before the original settings were saved", construct="setcbreak before tcgetattr"))
    # signal handlers
    si, sr = p.func(f"{PSX}.signal_init"), p.func(f"{PSX}.signal_restore")
    if not list(calls_in(start, "signal_init")) or not list(calls_in(stop, "signal_restore")):
        rr.add(finding("PAIR", stop, stop.node, "_start/_stop no longer call signal_init()/signal_restore() as a pair", construct="signal_init/restore not paired"))
    set_sigs = {ast.unparse(c.args[0]) for c in calls_in(si, "signal_handler_setter") if c.args}

    def restore_triples(fn):
        """(signal, restored expression with the loop variable replaced by the saved attribute, call) for every
        signal_handler_setter call, also when the calls are folded into a loop over a literal tuple of pairs"""
        out = []
        for c in calls_in(fn, "signal_handler_setter"):
            if len(c.args) < 2:
                continue
            loop = next((l for l in ast.walk(fn.node) if isinstance(l, ast.For) and any(x is c for x in ast.walk(l)) and isinstance(l.iter, (ast.Tuple, ast.List)) and isinstance(l.target, ast.Tuple)), None)
            if loop is None:
                out.append((ast.unparse(c.args[0]), c.args[1], c))
                continue
            names = [t.id if isinstance(t, ast.Name) else None for t in loop.target.elts]
            for row in loop.iter.elts:
                if not isinstance(row, ast.Tuple) or len(row.elts) != len(names):
                    continue
                env = {nm: e for nm, e in zip(names, row.elts) if nm}

                class Sub(ast.NodeTransformer):
                    def visit_Name(self, n):
                        return env.get(n.id, n)

                import copy

                sig = Sub().visit(copy.deepcopy(c.args[0]))
                val = Sub().visit(copy.deepcopy(c.args[1]))
                out.append((ast.unparse(sig), val, c))
        return out

    triples = restore_triples(sr)
    res_sigs = {sig for sig, _v, _c in triples}
    for s in sorted(set_sigs):
        rr.inst(f"signal {s}", True, {"signal": s, "restored": s in res_sigs})
        if s not in res_sigs:
            rr.add(finding("PAIR", sr, sr.node, f"signal_init replaces the {s} handler but signal_restore does not restore it", construct=f"{s} not restored"))
    # restore uses the value saved by init, whatever it was: only None / a false value may be replaced by SIG_DFL
    saved = {ast.unparse(n.targets[0]): ast.unparse(n.value.args[0]) for n in si.own_nodes() if isinstance(n, ast.Assign) and isinstance(n.value, ast.Call) and callee_name(n.value) == "signal_handler_setter" and n.value.args}
    for attr, sig in saved.items():
        mine = [(v, c) for s_, v, c in triples if s_ == sig]
        used = any(attr in ast.unparse(v) for v, _c in mine)
        if not used:
            rr.add(finding("PAIR", sr, sr.node, f"the previous {sig} handler saved in {attr} is not the one signal_restore reinstalls", construct=f"{sig} restored from wrong value"))
            continue
        for v, c in mine:
            ok = ast.unparse(v) == attr
            if isinstance(v, ast.BoolOp) and isinstance(v.op, ast.Or) and ast.unparse(v.values[0]) == attr:
                ok = True
            if isinstance(v, ast.IfExp) and ast.unparse(v.body) == attr:
                t = ast.unparse(v.test)
                ok = t in (attr, f"{attr} is not None", f"{attr} != None")
            rr.inst(f"restore value {sig}", True, {"signal": sig, "restored_value": norm(v, 70)})
            if not ok:
                rr.add(finding("PAIR", sr, c, f"{sig} is restored as `{norm(v, 70)}`: the saved handler {attr} is passed through a test other than 'is it None / false', so a saved disposition that fails the test (signal.SIG_IGN is not callable) is replaced by SIG_DFL instead of being restored", construct=f"{sig} restored through a narrower test"))
    # a signal whose handler is NOT replaced by signal_init (SIGCONT is only taken over while suspended) may be
    # restored only when it was actually replaced: its restore is guarded by a flag that is raised exactly where
    # the handler is replaced - an unconditional `saved or SIG_DFL` puts SIG_DFL over the application's handler
    from ..rules.exc import ExcEngine

    cfg_sr = cfg_of(sr)
    for sig, v, c in triples:
        if sig in set_sigs:
            continue
        attrs = [x.attr for x in ast.walk(v) if isinstance(x, ast.Attribute) and isinstance(x.value, ast.Name) and x.value.id == sr.self_name]
        where = [f for f in psx.methods.values() if any(isinstance(n, ast.Assign) and any(isinstance(t, ast.Attribute) and t.attr in attrs for t in n.targets) and isinstance(n.value, ast.Call) and callee_name(n.value) == "signal_handler_setter" for n in f.own_nodes())]
        cn = nodes_where(cfg_sr, lambda x, c=c: x is c)
        flags = set()
        for t in cfg_sr.nodes:
            if t.kind == "test" and cn and cn[0] not in ExcEngine._reach_without_edge(cfg_sr, t, "T"):
                flags |= {x.attr for x in ast.walk(t.ast) if isinstance(x, ast.Attribute) and isinstance(x.value, ast.Name) and x.value.id == sr.self_name}
        raised = {t.attr for f in where for n in f.own_nodes() if isinstance(n, ast.Assign) and isinstance(n.value, ast.Constant) and n.value.value is True for t in n.targets if isinstance(t, ast.Attribute)}
        rr.inst(f"conditional restore of {sig}", True, {"signal": sig, "replaced_in": [short(f) for f in where], "restore_guard": sorted(flags & raised)})
        if not (flags & raised):
            rr.add(finding("PAIR", sr, c, f"{sig} is not replaced by signal_init() (only by {', '.join(short(f) for f in where) or 'nothing'}), yet signal_restore() sets it unconditionally to `{norm(v, 60)}`: in a session without that replacement the saved value is None and the application's own {sig} handler is overwritten with SIG_DFL", construct=f"{sig} restored although it may never have been replaced"))
    # tty signal keys
    rr.inst("tty signal keys restored", True)
    if list(calls_in(start, "tty_signal_keys")) and not list(calls_in(stop, "tty_signal_keys")):
        rr.add(finding("PAIR", stop, stop.node, "the tty signal keys saved in _start are not restored in _stop", construct="signal keys not restored"))
    # BaseScreen.start/stop flag discipline
    bs_start, bs_stop = p.func("urwid.display.common.BaseScreen.start"), p.func("urwid.display.common.BaseScreen.stop")
    rr.inst("BaseScreen.stop clears _started", True)
    cfg = cfg_of(bs_stop)
    clears = nodes_where(cfg, lambda s: isinstance(s, ast.Assign) and any(isinstance(t, ast.Attribute) and t.attr == "_started" for t in s.targets) and isinstance(s.value, ast.Constant) and s.value.value is False)
    calls = nodes_where(cfg, lambda s: isinstance(s, ast.Call) and callee_name(s) == "_stop")
    tests = [n for n in cfg.nodes if n.kind == "test" and "_started" in ast.unparse(n.ast)]
    if not clears or not cfg.must_pass(cfg.entry, clears, ends=[cfg.exit], labels=("n", "T", "F")):
        rr.add(finding("PAIR", bs_stop, bs_stop.node, "BaseScreen.stop() does not clear _started on every normal path", construct="_started not cleared"))
    if not calls or not tests or not all(c in cfg.reachable_from_edges([(t, "T")]) for c in calls for t in tests):
        rr.add(finding("PAIR", bs_stop, bs_stop.node, "BaseScreen.stop() does not call _stop() exactly when the screen was started", construct="_stop not under `if self._started`"))
    rr.inst("BaseScreen.start sets _started before _start", True)
    cfg = cfg_of(bs_start)
    sets = nodes_where(cfg, lambda s: isinstance(s, ast.Assign) and any(isinstance(t, ast.Attribute) and t.attr == "_started" for t in s.targets) and isinstance(s.value, ast.Constant) and s.value.value is True)
    calls = nodes_where(cfg, lambda s: isinstance(s, ast.Call) and callee_name(s) == "_start")
    if not sets or not calls or not all(cfg.dominated(c, sets) for c in calls):
        rr.add(finding("PAIR", bs_start, bs_start.node, "BaseScreen.start() does not mark the screen started before calling _start()", construct="_started not set before _start"))
    return rr


def rule_fresh_topmost(ctx: Ctx) -> RuleResult:
    """process_input() handles a *batch* of events; a handler for one event may replace the top widget
    (loop.widget = other, a pop-up opening).  Each event therefore goes to the widget that is topmost when the event
    is handled: inside the batch loop the receivers of selectable() / keypress() / mouse_event() are read from self,
    not from a local captured before the loop."""
    from ..rules.defuse import DefUse

    p = ctx.p
    rr = RuleResult("SNAP", "C12.5", "inside the batch loop of process_input the top widget is read afresh for every event", floor=3)
    pi = p.func(f"{ML}.process_input")
    du = DefUse(pi)
    cfg = du.cfg
    loops = [h for h in cfg.nodes if h.kind == "for" and isinstance(h.ast.iter, ast.Name) and h.ast.iter.id == pi.params[1]]
    if not loops:
        raise AnalysisError("MainLoop.process_input: the loop over the batch of keys was not found")
    loop = loops[0]
    inside = {id(x) for x in ast.walk(loop.ast)}
    n = 0
    for node in cfg.nodes:
        if node.ast is None or id(node.ast) not in inside and not any(id(x) in inside for x in ast.walk(node.ast)):
            continue
        for c in ast.walk(node.ast):
            recv = None
            if isinstance(c, ast.Call) and isinstance(c.func, ast.Attribute) and c.func.attr in ("keypress", "mouse_event", "selectable") and id(c) in inside:
                recv = c.func.value
            elif isinstance(c, ast.Call) and isinstance(c.func, ast.Name) and c.func.id == "hasattr" and c.args and id(c) in inside:
                recv = c.args[0]
            if recv is None:
                continue
            n += 1
            rr.inst(f"{norm(c, 50)}", True, {"call": norm(c, 60), "receiver": ast.unparse(recv)} if len(rr.samples) < 5 else None)
            for nm in [x for x in ast.walk(recv) if isinstance(x, ast.Name) and x.id != pi.self_name]:
                outside = [dn for v, how, dn in du.reaching(nm.id, node) if dn.ast is None or id(dn.ast) not in inside]
                if outside:
                    rr.add(finding("SNAP", pi, c, f"`{norm(c, 50)}` uses `{nm.id}`, bound before the loop over the batch (`{norm(outside[0].stmt, 50)}`): when the handler of an earlier event of the same batch replaces the top widget, the remaining events still go to the old one", construct=f"stale receiver {nm.id} in the batch loop"))
    # values derived from the top widget before the loop and tested inside it (handles_mouse = hasattr(topmost, ...))
    for node in cfg.nodes:
        if node.kind != "test" or not any(id(x) in inside for x in ast.walk(node.ast)):
            continue
        for nm in [x for x in ast.walk(node.ast) if isinstance(x, ast.Name)]:
            for v, how, dn in du.reaching(nm.id, node):
                if isinstance(v, ast.AST) and (dn.ast is None or id(dn.ast) not in inside) and "_topmost_widget" in du.text(v, dn):
                    rr.add(finding("SNAP", pi, node.stmt, f"the test `{norm(node.ast, 50)}` uses `{nm.id}`, computed from the top widget before the loop over the batch: it describes the widget that was topmost when the batch started", construct=f"stale receiver {nm.id} in the batch loop"))
    if n < 3:
        raise AnalysisError("process_input: the selectable/keypress/mouse_event calls inside the batch loop were not found")
    return rr


def rule_pipeline(ctx: Ctx) -> RuleResult:
    p = ctx.p
    rr = RuleResult("ORDER", "C12.4", "input passes input_filter, then the topmost widget, then unhandled_input exactly when the widget did not handle it", floor=5)
    up = p.func(f"{ML}._update")
    cfg = cfg_of(up)
    filt = [c for c in calls_in(up, "input_filter")]
    proc = [c for c in calls_in(up, "process_input")]
    if not filt or not proc:
        raise AnalysisError("MainLoop._update no longer calls input_filter/process_input")
    fn = [n for c in filt for n in nodes_where(cfg, lambda s, c=c: s is c)]
    pn = [n for c in proc for n in nodes_where(cfg, lambda s, c=c: s is c)]
    rr.inst("_update: filter before process", True)
    if not all(cfg.dominated(x, fn) for x in pn):
        rr.add(finding("ORDER", up, proc[0], "process_input can run on input that did not pass input_filter", construct="process_input before input_filter"))
    # the value processed is the filter's result
    rr.inst("_update: filter result is what is processed", True)
    res_names = set()
    for n in up.own_nodes():
        if isinstance(n, ast.NamedExpr) and n.value in filt:
            res_names.add(n.target.id)
        if isinstance(n, ast.Assign) and n.value in filt:
            res_names |= {t.id for t in n.targets if isinstance(t, ast.Name)}
    arg_ok = all(c.args and ((isinstance(c.args[0], ast.Name) and c.args[0].id in res_names) or c.args[0] in filt) for c in proc)
    if not arg_ok:
        rr.add(finding("ORDER", up, proc[0], "process_input is not given the list returned by input_filter", construct="filter result not forwarded"))
    # process_input
    pi = p.func(f"{ML}.process_input")
    cfg = cfg_of(pi)
    unh = nodes_where(cfg, lambda s: isinstance(s, ast.Call) and callee_name(s) == "unhandled_input")
    if not unh:
        raise AnalysisError("MainLoop.process_input no longer calls unhandled_input")
    loops = [n for n in cfg.nodes if n.kind == "for"]
    kp = [n for n in cfg.nodes if n.kind == "test" and any(isinstance(x, ast.Call) and callee_name(x) == "keypress" for x in ast.walk(n.ast))]
    me = [n for n in cfg.nodes if n.kind == "test" and any(isinstance(x, ast.Call) and callee_name(x) == "mouse_event" for x in ast.walk(n.ast))]
    if not kp or not me:
        raise AnalysisError("process_input: the keypress / mouse_event tests were not found")
    alt = nodes_where(cfg, lambda s: isinstance(s, ast.Call) and ast.unparse(s.func) == "self.screen.clear")
    for t in kp:
        rr.inst("handled key is not passed to unhandled_input", True)
        r = cfg.reachable_from_edges([(t, "F")], avoid=loops)
        if any(u in r for u in unh):
            rr.add(finding("ORDER", pi, t.stmt, "a key the widget handled (keypress returned a false value) can still reach unhandled_input in the same iteration", construct="handled key reaches unhandled_input"))
        rr.inst("unhandled key reaches unhandled_input", True)
        r = cfg.reachable_from_edges([(t, "T")], avoid=unh + alt + [n for n in cfg.nodes if n.kind == "raisestmt"])
        # a path back to the loop head / exit that avoids unhandled_input: only allowed through the `if key:` false branch
        back = [n for n in r if n in loops or n is cfg.exit]
        if back:
            # permitted when the path passes a falsy-key test (`if key:` false edge)
            # the loop variable of the batch loop, by role: the target of `for <key> in <keys parameter>`
            keyvars = {h.ast.target.id for h in loops if isinstance(h.ast.target, ast.Name)}
            keytests = [n for n in cfg.nodes if n.kind == "test" and isinstance(n.ast, ast.Name) and n.ast.id in keyvars]
            r2 = cfg.reachable_from_edges([(t, "T")], avoid=unh + alt + keytests + [n for n in cfg.nodes if n.kind == "raisestmt"])
            if any(n in r2 for n in loops) or cfg.exit in r2:
                rr.add(finding("ORDER", pi, t.stmt, "a key the widget returned unhandled can finish the iteration without being offered to unhandled_input", construct="unhandled key skips unhandled_input"))
    # the statement node that contains the unhandled_input call evaluates it unconditionally: the call is not
    # an operand that `or` / `and` / a conditional expression can skip, and the loop over the batch is never left early
    for u in unh:
        rr.inst("unhandled_input evaluated unconditionally", True)
        for x in ast.walk(u.ast):
            skip = None
            if isinstance(x, ast.BoolOp):
                for v in x.values[1:]:
                    if any(isinstance(c, ast.Call) and callee_name(c) == "unhandled_input" for c in ast.walk(v)):
                        skip = f"right operand of `{'or' if isinstance(x.op, ast.Or) else 'and'}`"
            elif isinstance(x, ast.IfExp):
                if any(isinstance(c, ast.Call) and callee_name(c) == "unhandled_input" for c in ast.walk(x.body)) or any(isinstance(c, ast.Call) and callee_name(c) == "unhandled_input" for c in ast.walk(x.orelse)):
                    skip = "branch of a conditional expression"
            if skip:
                rr.add(finding("ORDER", pi, u.stmt, f"the unhandled_input call is the {skip} in `{norm(u.stmt, 70)}`: once an earlier event of the same batch was handled, later unhandled events are never offered to the handler", construct="unhandled_input call can be short-circuited"))
    for lp in loops:
        rr.inst("batch loop runs to the end", True)
        body = cfg.reachable_from_edges([(lp, "T")], avoid=[lp])
        early = [n for n in body if n.kind in ("break", "return")]
        for e in early:
            rr.add(finding("ORDER", pi, e.stmt, f"`{norm(e.stmt, 40)}` leaves the loop over the input batch early: the remaining events of the read are dropped", construct=f"batch loop left early by {norm(e.stmt, 40)}"))
    for t in me:
        rr.inst("handled mouse event is not passed to unhandled_input", True)
        r = cfg.reachable_from_edges([(t, "T")], avoid=loops)
        if any(u in r for u in unh):
            rr.add(finding("ORDER", pi, t.stmt, "a mouse event the widget handled can still reach unhandled_input", construct="handled mouse event reaches unhandled_input"))
    return rr


def _carry_over(ctx: Ctx):
    from . import c05

    r = c05.rule_carry_over(ctx)
    r.clause = "C12.5"
    return r


def rule_exception_identity(ctx: Ctx) -> RuleResult:
    """'any other exception propagates out of run() unchanged'.  Trio wraps what a task raises in an ExceptionGroup -
    one layer, added by the nursery of TrioEventLoop._main_task - and _handle_main_loop_exception() takes exactly that
    layer off again.  Taking off more (a loop around the unwrapping) dismantles a one-member ExceptionGroup the
    callback raised itself: run() would raise the inner exception instead of the group."""
    p = ctx.p
    rr = RuleResult("PASS", "C12.7", "TrioEventLoop removes at most the one ExceptionGroup layer its own nursery adds (the unwrapping is not repeated)", floor=1)
    fi = p.func("urwid.event_loop.trio_loop.TrioEventLoop._handle_main_loop_exception")
    prm = fi.params[1]
    unwraps = [n for n in fi.own_nodes() if isinstance(n, ast.Assign) and any(isinstance(t, ast.Name) and t.id == prm for t in n.targets) and "exceptions" in ast.unparse(n.value)]
    if not unwraps:
        raise AnalysisError("_handle_main_loop_exception: the statement that unwraps the exception group was not found")
    loops = [l for l in fi.own_nodes() if isinstance(l, (ast.While, ast.For))]
    for u in unwraps:
        inside = [l for l in loops if any(x is u for x in ast.walk(l))]
        rr.inst(norm(u, 50), True, {"unwrap": norm(u, 60), "repeated": bool(inside)})
        if inside:
            rr.add(finding("PASS", fi, inside[0], f"`{norm(u, 50)}` is repeated by `{norm(inside[0], 50)}`: besides the layer trio's nursery adds it also takes apart a one-member ExceptionGroup that the callback itself raised, so run() raises the inner exception instead of the exception the callback raised", construct="exception group unwrapped repeatedly"))
    return rr


def _redraw_armed(ctx: Ctx) -> RuleResult:
    """'the screen is redrawn from the resulting widget state before the loop next waits': the redraw is the idle
    callback, so every alarm / watch callback has to arm the idle run and a cancelled idle handle must be forgotten
    (otherwise a later session on the same loop never redraws after input) - shared with C13.3."""
    rr = c13.rule_idle_arming(ctx)
    rr.clause = "C12.10"
    return rr


def rule_popup_fresh(ctx: Ctx) -> RuleResult:
    """'each event is passed to the topmost widget': with pop_ups the topmost widget is PopUpTarget, which routes to
    `_current_widget` - the original widget, or an Overlay with the open pop-up on top.  Which of the two it is
    follows from the *current* rendering of the original widget; process_input() hands a whole batch of events over
    without a redraw in between, so an event that opens or closes a pop-up changes the routing of the next one.
    Every entry point of PopUpTarget that reads `_current_widget` therefore calls _update_overlay(size, ..) first
    (the method that writes it) - render() alone refreshes it only at the next idle redraw."""
    p = ctx.p
    rr = RuleResult("MEMO", "C12.9", "every PopUpTarget entry point refreshes the overlay (_update_overlay) before it routes to _current_widget", floor=6)
    cls = p.cls("urwid.widget.popup.PopUpTarget")
    writers = [m for m in cls.methods.values() if m.name not in ("__init__",) and any(isinstance(n, ast.Attribute) and n.attr == "_current_widget" and isinstance(n.ctx, ast.Store) for n in m.own_nodes())]
    if not writers:
        raise AnalysisError("PopUpTarget: the method that writes _current_widget was not found")
    wnames = {w.name for w in writers}
    for m in cls.methods.values():
        if m.name in wnames or m.name == "__init__":
            continue
        reads = [n for n in m.own_nodes() if isinstance(n, ast.Attribute) and n.attr == "_current_widget" and isinstance(n.ctx, ast.Load)]
        if not reads:
            continue
        cfg = cfg_of(m)
        ups = nodes_where(cfg, lambda c: isinstance(c, ast.Call) and isinstance(c.func, ast.Attribute) and c.func.attr in wnames)
        rnodes = [x for x in cfg.nodes if x.ast is not None and any(isinstance(y, ast.Attribute) and y.attr == "_current_widget" and isinstance(y.ctx, ast.Load) for e in node_exprs(x) for y in ast.walk(e))]
        ok = bool(ups) and all(cfg.dominated(r, ups) for r in rnodes)
        rr.inst(short(m), True, {"entry_point": short(m), "refreshes_first": ok})
        if not ok:
            rr.add(finding("MEMO", m, reads[0], f"{m.name}() routes to self._current_widget without calling {sorted(wnames)[0]}() first: the overlay is then the one worked out at the last redraw - after an event of the same input batch opened or closed a pop-up the following events go to the wrong widget (keys typed right after the key that opens the pop-up reach the widget underneath)", construct=f"{m.name}: _current_widget used without refreshing the overlay"))
    return rr


def rule_size_reasked(ctx: Ctx) -> RuleResult:
    """'the screen is redrawn from the resulting widget state': MainLoop caches the terminal size in screen_size and
    forgets it only when a "window resize" event arrives.  A stopped screen delivers no such event (its SIGWINCH
    handler is removed by stop()), so start() has to forget the cached size itself - every normal path through
    start() after screen.start() stores None into the attribute that the resize handling resets."""
    p = ctx.p
    rr = RuleResult("PASS", "C12.11", "MainLoop.start() drops the cached screen size (the reset a 'window resize' event makes cannot happen while the screen is stopped)", floor=1)
    upd = p.func(f"{ML}._update")
    attrs = sorted({t.attr for n in upd.own_nodes() if isinstance(n, ast.Assign) and isinstance(n.value, ast.Constant) and n.value.value is None for t in n.targets if isinstance(t, ast.Attribute)})
    if not attrs:
        raise AnalysisError("MainLoop._update: the reset of the cached screen size on 'window resize' was not found")
    st = p.func(f"{ML}.start")
    cfg = cfg_of(st)
    starts = nodes_where(cfg, lambda c: isinstance(c, ast.Call) and isinstance(c.func, ast.Attribute) and c.func.attr == "start" and ast.unparse(c.func.value) == "self.screen")
    for a in attrs:
        resets = [n for n in cfg.nodes if isinstance(n.ast, ast.Assign) and isinstance(n.ast.value, ast.Constant) and n.ast.value.value is None and any(isinstance(t, ast.Attribute) and t.attr == a for t in n.ast.targets)]
        ok = bool(starts) and bool(resets) and all(cfg.must_pass(s_, resets, ends=[cfg.exit], labels=("n", "T", "F")) for s_ in starts)
        rr.inst(f"start() resets {a}", True, {"cached": a, "reset_in_start": ok})
        if not ok:
            rr.add(finding("PASS", st, st.node, f"start() does not reset self.{a}, which is otherwise only dropped when a 'window resize' event arrives: a second run() after the terminal changed size while the screen was stopped renders and draws at the old size", construct=f"start() keeps the cached {a}"))
    return rr


def rule_resize_seen_before_filter(ctx: Ctx) -> RuleResult:
    """The cached screen size is dropped when "window resize" arrives.  The input filter stands between the screen
    and that decision and may drop or replace events (a filter that swallows everything while the application is
    busy): whether the event was there is therefore noted *before* the filter is called, and the reset of the cached
    size depends on that note.  Before fix ed5b507 both loops looked for the event in the filter's output only: a
    filter that dropped it left every later redraw at the old size."""
    from ..rules.exc import ExcEngine

    p = ctx.p
    rr = RuleResult("ORDER", "C12.16", "whether a 'window resize' arrived is noted before the input filter runs, and the cached screen size is dropped on that note", floor=2)
    for name in ("_update", "_run_screen_event_loop"):
        fi = p.func(f"{ML}.{name}")
        cfg = cfg_of(fi)
        filt = nodes_where(cfg, lambda c: isinstance(c, ast.Call) and isinstance(c.func, ast.Attribute) and c.func.attr == "input_filter")
        resets = [n for n in cfg.nodes if isinstance(n.ast, ast.Assign) and isinstance(n.ast.value, ast.Constant) and n.ast.value.value is None and any(isinstance(t, ast.Attribute) and t.attr == "screen_size" for t in n.ast.targets)]
        if not filt or not resets:
            raise AnalysisError(f"MainLoop.{name}: input_filter call / screen_size reset not found")
        flags = set()
        for n in cfg.nodes:
            if isinstance(n.ast, ast.Assign) and len(n.ast.targets) == 1 and isinstance(n.ast.targets[0], ast.Name) and isinstance(n.ast.value, ast.Compare) and isinstance(n.ast.value.ops[0], ast.In) and isinstance(n.ast.value.left, ast.Constant) and n.ast.value.left.value == "window resize":
                # noted before the filter: every path from the note to a reset passes... the filter comes after it
                if all(f in cfg.reachable([n], labels=("n", "T", "F")) for f in filt) and not any(n in cfg.reachable([f], labels=("n", "T", "F")) - set() for f in filt if name == "_update"):
                    flags.add(n.ast.targets[0].id)
                elif name != "_update" and all(f in cfg.reachable([n], avoid=resets, labels=("n", "T", "F")) for f in filt):
                    flags.add(n.ast.targets[0].id)
        for r in resets:
            ok = False
            for t in cfg.nodes:
                if t.kind == "test" and r not in ExcEngine._reach_without_edge(cfg, t, "T") and any(isinstance(x, ast.Name) and x.id in flags for x in ast.walk(t.ast)):
                    ok = True
            rr.inst(f"{name}: {norm(r.ast, 40)}", True, {"function": name, "noted_before_filter": sorted(flags), "reset_depends_on_it": ok})
            if not ok:
                rr.add(finding("ORDER", fi, r.ast, f"{name}() drops the cached screen size only if 'window resize' is still in what the input filter returned: a filter that drops or replaces the event (returns [] while busy) leaves screen_size at the old value and every later redraw at the old size", construct=f"{name}: resize looked for after the input filter only"))
    return rr


def _nameprefix(ctx: Ctx) -> RuleResult:
    """process_input() decides by is_mouse_event() whether an event goes to mouse_event() or keypress(): every mouse
    report - also one with modifier words in front - has to be recognised (shared with C05.14)."""
    from ..rules import nameprefix

    return nameprefix.run_nameprefix(ctx.p, "C12.13", ("urwid.display", "urwid.util", "urwid.event_loop.main_loop"), floor=3)


def rule_snapshot_per_session(ctx: Ctx) -> RuleResult:
    """'original tty settings restored' for *every* session: Screen._start() snapshots the tty signal keys only when
    the application has not set them itself (`if not self.<flag>:`), and the flag is raised by every
    tty_signal_keys() call that changes something - including the one _stop() makes to restore the snapshot.  So the
    restoring branch of _stop() has to lower the flag again, otherwise the second session takes no snapshot and its
    stop() writes the first session's keys over whatever the terminal had in between (fix 69fb61c).  Checked for
    every display module that has this _start / _stop pair."""
    p = ctx.p
    rr = RuleResult("PAIR", "C12.12", "the flag that suppresses the signal-key snapshot in _start() is lowered again where _stop() restores the snapshot", floor=1)
    for cq in ("urwid.display._posix_raw_display.Screen", "urwid.display.curses.Screen"):
        if cq not in p.classes:
            continue
        cls = p.classes[cq]
        st, sp = cls.methods.get("_start"), cls.methods.get("_stop")
        if st is None or sp is None:
            continue
        flags = set()
        for t in [n for n in st.own_nodes() if isinstance(n, ast.If)]:
            if isinstance(t.test, ast.UnaryOp) and isinstance(t.test.op, ast.Not) and isinstance(t.test.operand, ast.Attribute) and any(isinstance(c, ast.Call) and callee_name(c) == "tty_signal_keys" for b in t.body for c in ast.walk(b)):
                flags.add(t.test.operand.attr)
        if not flags:
            if cq == PSX:
                raise AnalysisError("Screen._start: the flag-guarded snapshot of the tty signal keys was not found")
            continue
        cfg = cfg_of(sp)
        restores = nodes_where(cfg, lambda c: isinstance(c, ast.Call) and callee_name(c) == "tty_signal_keys" and c.args)
        for f in sorted(flags):
            lowers = [n for n in cfg.nodes if isinstance(n.ast, ast.Assign) and isinstance(n.ast.value, ast.Constant) and n.ast.value.value is False and any(isinstance(t, ast.Attribute) and t.attr == f for t in n.ast.targets)]
            ok = bool(restores) and all(cfg.must_pass(r, lowers, ends=[cfg.exit], labels=("n", "T", "F")) for r in restores)
            rr.inst(f"{short(sp)}: {f}", True, {"stop": short(sp), "flag": f, "lowered_after_restore": ok})
            if not ok:
                rr.add(finding("PAIR", sp, restores[0].stmt if restores else sp.node, f"_stop() restores the signal keys with tty_signal_keys(), which raises self.{f}, and does not lower it again: the next _start() skips its snapshot (`if not self.{f}`) and the next _stop() writes this session's keys over whatever the terminal was set to in between", construct=f"restore leaves {f} raised"))
    return rr


def rule_stop_flushed(ctx: Ctx) -> RuleResult:
    """'leaving the terminal in its initial modes' is about what has reached the terminal when stop() returns, not about
    what sits in the output stream's buffer.  Every escape sequence Screen._stop() writes (directly or through a
    helper of the class) is followed, on every way to the end of _stop(), by a flush() - directly or through a helper
    whose every normal path flushes.  The disable sequences for bracketed paste / focus reporting written *after* the
    only flush stay in a block-buffered stream: the terminal keeps the modes on."""
    p = ctx.p
    rr = RuleResult("PASS", "C12.14", "every write of Screen._stop() is followed by a flush() on every way to its end", floor=2)
    fi = p.func(f"{PSX}._stop")
    cfg = cfg_of(fi)
    cls = p.cls(PSX)

    def method(name):
        r = p.find_member(cls, name)
        return r[1] if r and r[0] == "method" else None

    def helper_flushes(name, seen=()):
        g = method(name)
        if g is None or name in seen:
            return False
        gcfg = cfg_of(g)
        fl = nodes_where(gcfg, lambda c: isinstance(c, ast.Call) and isinstance(c.func, ast.Attribute) and (c.func.attr == "flush" or (isinstance(c.func.value, ast.Name) and c.func.value.id == g.self_name and helper_flushes(c.func.attr, (*seen, name)))))
        return bool(fl) and gcfg.must_pass(gcfg.entry, fl, ends=[gcfg.exit], labels=("n", "T", "F"))

    def helper_writes(name, seen=()):
        g = method(name)
        if g is None or name in seen:
            return False
        return any(isinstance(c, ast.Call) and isinstance(c.func, ast.Attribute) and (c.func.attr == "write" or (isinstance(c.func.value, ast.Name) and c.func.value.id == g.self_name and c.func.attr not in ("flush",) and helper_writes(c.func.attr, (*seen, name)))) for c in g.own_nodes())

    flushes = nodes_where(cfg, lambda c: isinstance(c, ast.Call) and isinstance(c.func, ast.Attribute) and isinstance(c.func.value, ast.Name) and c.func.value.id == fi.self_name and (c.func.attr == "flush" or helper_flushes(c.func.attr)))
    writes = nodes_where(cfg, lambda c: isinstance(c, ast.Call) and isinstance(c.func, ast.Attribute) and isinstance(c.func.value, ast.Name) and c.func.value.id == fi.self_name and (c.func.attr == "write" or helper_writes(c.func.attr)))
    if not writes or not flushes:
        raise AnalysisError("Screen._stop: writes / flushes not found")
    for w in writes:
        # a node that writes and flushes itself (a helper ending in flush()) is its own flush
        ok = w in flushes or cfg.must_pass(w, [f for f in flushes if f is not w], ends=[cfg.exit], labels=("n", "T", "F"))
        rr.inst(norm(w.stmt, 50), True, {"write": norm(w.stmt, 60), "flushed_before_the_end": ok})
        if not ok:
            rr.add(finding("PASS", fi, w.stmt, f"`{norm(w.stmt, 60)}` writes to the terminal and _stop() can end without a flush() after it: with a block-buffered output stream the sequence has not reached the terminal when stop() / run() returns - the mode it switches off stays on", construct=f"write not flushed: {norm(w.stmt, 40)}"))
    return rr


def rule_reraise_unchanged(ctx: Ctx) -> RuleResult:
    """'any other exception propagates out of run() unchanged': the event loops catch a callback's exception (or park
    it) and raise the same object again from run().  `raise <that object> from None` is not a neutral way to do it:
    it assigns __cause__ = None on the object, so an exception the callback raised with `raise X from Y` arrives
    without Y.  Every raise statement of the event-loop layer that re-raises an existing exception object (a name or
    attribute, possibly through .with_traceback()) either has no `from` clause or names that object's own __cause__.
    Before fix 1942920 TrioEventLoop._handle_main_loop_exception used `from None` to hide the exception group."""
    p = ctx.p
    rr = RuleResult("PASS", "C12.15", "no event loop re-raises a callback's exception with a `from` clause that overwrites its __cause__", floor=4)
    for fi in p.functions.values():
        if not (fi.module.name.startswith("urwid.event_loop") or fi.module.name == "urwid.event_loop.main_loop") or fi.is_lambda:
            continue
        for r in fi.own_nodes():
            if not isinstance(r, ast.Raise) or r.exc is None:
                continue
            e = r.exc
            if isinstance(e, ast.Call) and isinstance(e.func, ast.Attribute) and e.func.attr == "with_traceback":
                e = e.func.value
            if not isinstance(e, (ast.Name, ast.Attribute)):
                continue  # a new exception object: the `from` clause describes it, nothing is overwritten
            # a class name (raise ExitMainLoop) constructs a new object as well
            if isinstance(e, ast.Name) and e.id[:1].isupper():
                continue
            obj = ast.unparse(e)
            ok = r.cause is None or (isinstance(r.cause, ast.Attribute) and r.cause.attr == "__cause__" and ast.unparse(r.cause.value) == obj)
            rr.inst(f"{short(fi)}: {norm(r, 50)}", True, {"site": f"{short(fi)}: {norm(r, 60)}", "object": obj, "cause_clause": ast.unparse(r.cause) if r.cause is not None else None} if len(rr.samples) < 10 else None)
            if not ok:
                rr.add(finding("PASS", fi, r, f"`{norm(r, 70)}` re-raises the exception object `{obj}` with a `from` clause: that assigns __cause__ on the object, so the exception a callback raised with `raise X from Y` leaves run() without Y (not 'unchanged')", construct=f"re-raise of {obj} overwrites __cause__"))
    return rr


def run(ctx: Ctx):
    return [
        rule_run_restores(ctx),
        rule_run_releases(ctx),
        rule_mode_pairs(ctx),
        c13.rule_wrap(ctx, "C12.3"),
        rule_pipeline(ctx),
        rule_fresh_topmost(ctx),
        _carry_over(ctx),
        rule_exception_identity(ctx),
        rule_popup_fresh(ctx),
        rule_size_reasked(ctx),
        rule_snapshot_per_session(ctx),
        _nameprefix(ctx),
        rule_stop_flushed(ctx),
        _redraw_armed(ctx),
        rule_reraise_unchanged(ctx),
        rule_resize_seen_before_filter(ctx),
    ]


from ..mutants import Mut  # noqa: E402

_M = "urwid/event_loop/main_loop.py"
_P = "urwid/display/_posix_raw_display.py"
MUTANTS = [
    Mut("twin-resize-note-parenthesised", _M, "MainLoop._update", "        resized = \"window resize\" in keys\n", "        resized = (\"window resize\" in keys)\n", twin=True),
    Mut("resize-looked-for-after-filter", _M, "MainLoop._update", "        if resized or \"window resize\" in keys:", "        if keys and \"window resize\" in keys:", "ORDER|event_loop.main_loop.MainLoop._update|_update: resize looked for after the input filter only"),
    Mut("resize-looked-for-after-filter-sync", _M, "MainLoop._run_screen_event_loop", "            if resized or \"window resize\" in keys:", "            if keys and \"window resize\" in keys:", "ORDER|event_loop.main_loop.MainLoop._run_screen_event_loop|_run_screen_event_loop: resize looked for after the input filter only"),
    Mut("trio-reraise-from-none", "urwid/event_loop/trio_loop.py", "TrioEventLoop._handle_main_loop_exception", "raise exc.with_traceback(exc.__traceback__) from exc.__cause__", "raise exc.with_traceback(exc.__traceback__) from None", "PASS|event_loop.trio_loop.TrioEventLoop._handle_main_loop_exception|re-raise of exc overwrites __cause__"),
    Mut("twin-trio-reraise-plain", "urwid/event_loop/trio_loop.py", "TrioEventLoop._handle_main_loop_exception", "raise exc.with_traceback(exc.__traceback__) from exc.__cause__", "raise exc.with_traceback(exc.__traceback__)", twin=True),
    Mut("stop-disables-after-the-flush", _P, "urwid.display._posix_raw_display.Screen._stop", "        if self.bracketed_paste_mode:\n            self.write(escape.DISABLE_BRACKETED_PASTE_MODE)\n\n        if self.focus_reporting:\n            self.write(escape.DISABLE_FOCUS_REPORTING)\n\n", "", "PASS|display._posix_raw_display.Screen._stop|write not flushed", also=[("        self._stop_mouse_restore_buffer()\n", "        self._stop_mouse_restore_buffer()\n        if self.focus_reporting:\n            self.write(escape.DISABLE_FOCUS_REPORTING)\n        if self.bracketed_paste_mode:\n            self.write(escape.DISABLE_BRACKETED_PASTE_MODE)\n")]),
    Mut("mouse-event-test-as-prefix", "urwid/util.py", "is_mouse_event", '"mouse" in ev[0]', 'isinstance(ev[0], str) and ev[0].startswith("mouse ")', "SIB|util.is_mouse_event|'mouse' tested as a prefix"),
    Mut("signal-keys-snapshot-once", _P, "urwid.display._posix_raw_display.Screen._stop", "            self._signal_keys_set = False\n", "", "PAIR|display._posix_raw_display.Screen._stop|restore leaves _signal_keys_set raised"),
    Mut("start-keeps-cached-screen-size", _M, "MainLoop.start", "        self.screen_size = None\n", "", "PASS|event_loop.main_loop.MainLoop.start|start() keeps the cached screen_size"),
    Mut("popup-keypress-stale-overlay", "urwid/widget/popup.py", "PopUpTarget.keypress", "        self._update_overlay(size, True)\n", "", "MEMO|widget.popup.PopUpTarget.keypress|keypress: _current_widget used without refreshing the overlay"),
    Mut("popup-mouse-stale-overlay", "urwid/widget/popup.py", "PopUpTarget.mouse_event", "        self._update_overlay(size, focus)\n", "", "MEMO|widget.popup.PopUpTarget.mouse_event|mouse_event: _current_widget used without refreshing the overlay"),
    Mut("trio-unwraps-every-singleton-group", "urwid/event_loop/trio_loop.py", "TrioEventLoop._handle_main_loop_exception", "        if isinstance(exc, BaseExceptionGroup) and len(exc.exceptions) == 1:", "        while isinstance(exc, BaseExceptionGroup) and len(exc.exceptions) == 1:", "PASS|event_loop.trio_loop.TrioEventLoop._handle_main_loop_exception"),
    Mut("sigcont-restored-unconditionally", "urwid/display/_posix_raw_display.py", "Screen.signal_restore", "        if self._sigcont_replaced:\n            self.signal_handler_setter(signal.SIGCONT, self._prev_sigcont_handler or signal.SIG_DFL)\n            self._sigcont_replaced = False", "        self.signal_handler_setter(signal.SIGCONT, self._prev_sigcont_handler or signal.SIG_DFL)", "PAIR|display._posix_raw_display.Screen.signal_restore"),
    Mut("twin-topmost-captured-but-unused", "urwid/event_loop/main_loop.py", "MainLoop.process_input", "        something_handled = False\n", "        something_handled = False\n        topmost = self._topmost_widget\n        del topmost\n", twin=True),
    Mut("topmost-stale-in-batch", "urwid/event_loop/main_loop.py", "MainLoop.process_input", "        something_handled = False\n\n        for key in keys:\n            if key == \"window resize\":\n                continue\n\n            if isinstance(key, str):\n                if self._topmost_widget.selectable():\n                    if handled_key := self._topmost_widget.keypress(self.screen_size, key):", "        something_handled = False\n        topmost = self._topmost_widget\n\n        for key in keys:\n            if key == \"window resize\":\n                continue\n\n            if isinstance(key, str):\n                if topmost.selectable():\n                    if handled_key := topmost.keypress(self.screen_size, key):", "SNAP|event_loop.main_loop.MainLoop.process_input"),
    Mut("restore-only-callable-handlers", "urwid/display/_posix_raw_display.py", "Screen.signal_restore", "self.signal_handler_setter(signal.SIGTSTP, self._prev_sigtstp_handler or signal.SIG_DFL)", "self.signal_handler_setter(signal.SIGTSTP, self._prev_sigtstp_handler if callable(self._prev_sigtstp_handler) else signal.SIG_DFL)", "PAIR|display._posix_raw_display.Screen.signal_restore"),
    Mut("twin-restore-folded-into-loop", "urwid/display/_posix_raw_display.py", "Screen.signal_restore", "        self.signal_handler_setter(signal.SIGTSTP, self._prev_sigtstp_handler or signal.SIG_DFL)\n", "        for signum, previous in (\n            (signal.SIGTSTP, self._prev_sigtstp_handler),\n        ):\n            self.signal_handler_setter(signum, previous or signal.SIG_DFL)\n", twin=True),
    Mut("run-stop-only-on-exception-subclass", _M, "MainLoop._run", "        finally:\n            self.stop()  # clean up screen control and the hooks added to the event loop\n", "        except Exception:\n            self.stop()\n            raise\n        self.stop()\n", "PASS|"),
    Mut("run-reraise-wrapped", _M, "MainLoop._run", "        finally:\n            self.stop()  # clean up screen control and the hooks added to the event loop\n", "        except:\n            self.stop()\n            raise RuntimeError(\"event loop failed\")\n        self.stop()\n", "PASS|"),
    Mut("run-exception-stops-screen-only", _M, "MainLoop._run", "        finally:\n            self.stop()  # clean up screen control and the hooks added to the event loop\n", "        except:\n            self.screen.stop()  # clean up screen control\n            raise\n        self.stop()\n", "PAIR|event_loop.main_loop.MainLoop._run|exceptional exit without remove_enter_idle"),
    Mut("twin-run-except-and-tail-stop", _M, "MainLoop._run", "        finally:\n            self.stop()  # clean up screen control and the hooks added to the event loop\n", "        except:\n            self.stop()\n            raise\n        self.stop()\n", twin=True),
    Mut("stop-keeps-idle-callback", _M, "MainLoop.stop", "        self.event_loop.remove_enter_idle(self.idle_handle)\n        del self.idle_handle\n", "        del self.idle_handle\n", "PAIR|event_loop.main_loop.MainLoop.stop|stop() without remove_enter_idle"),
    Mut("finally-returns", _M, "MainLoop._run", "        finally:\n            self.stop()  # clean up screen control and the hooks added to the event loop\n", "        finally:\n            self.stop()\n            return\n", "PASS|event_loop.main_loop.MainLoop._run|finally replaces the exception"),
    Mut("bracketed-paste-not-disabled", _P, "urwid.display._posix_raw_display.Screen._stop", "            self.write(escape.DISABLE_BRACKETED_PASTE_MODE)", "            pass", "PAIR|"),
    Mut("focus-reporting-other-guard", _P, "urwid.display._posix_raw_display.Screen._stop", "        if self.focus_reporting:\n            self.write(escape.DISABLE_FOCUS_REPORTING)", "        if self.bracketed_paste_mode:\n            self.write(escape.DISABLE_FOCUS_REPORTING)", "PAIR|"),
    Mut("unhandled-input-short-circuit", _M, "MainLoop.process_input", "something_handled |= bool(self.unhandled_input(key))", "something_handled = something_handled or bool(self.unhandled_input(key))", "ORDER|event_loop.main_loop.MainLoop.process_input"),
    Mut("filter-result-ignored", _M, "MainLoop._update", "            self.process_input(keys)\n", "            self.process_input(list(raw) and keys or keys[:0] or keys)\n", "ORDER|", error_ok=True),
    Mut("tornado-idle-unwrapped", "urwid/event_loop/tornado_loop.py", "TornadoEventLoop._also_call_idle", "self._loop.call_later(0, self.handle_exit(self._entering_idle))", "self._loop.call_later(0, self._entering_idle)", "WRAP|"),
]
