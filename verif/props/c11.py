"""C11 - screen-width arithmetic is consistent for text in every encoding."""

from __future__ import annotations

import ast
import codecs

from ..consteval import fold_module_name
from ..core import Ctx, RuleResult, finding, short, walk_no_nested
from ..model import AnalysisError, norm
from ..mutants import Mut
from ..rules import pairlen, kind, prog
from ..rules.defuse import DefUse
from ..rules.exc import ExcEngine
from ..rules.util import callee_name, cfg_of, nodes_where

EXPLANATION = (
    "Decided (necessary structural conditions of C11): (1) COVER: each width function still distinguishes the text types and encoding modes it must (calc_text_pos, is_wide_char, "
    "move_prev_char, move_next_char: str / utf8 / wide / default; calc_width: str / utf8 / default), the str test dominates the byte paths, and every literal compared with the byte-encoding "
    "mode is one set_byte_encoding accepts; (2) TAB: every literal compared with get_encoding() is the canonical codec spelling (what the detected locale encoding is normalised to), so a "
    "mode decision cannot depend on how the encoding was spelled; (3) one source of widths: get_width(o) is get_char_width(chr(o)) on every path and get_char_width returns the table "
    "value or 0 - no function substitutes its own literal width; (4) set_encoding defines the byte-encoding mode, _use_dec_special and _target_encoding on every path, so the result never "
    "depends on the previously active encoding; (5) PROG: the byte-walking loops advance on every back edge; (6) DEADCMP: within_double_byte(t, a, a) can never answer 2, so a `== 2` "
    "test must pass a line start different from the position; (7) KIND: no container-kind misuse in str_util / util."
    ' Added after seed round 3: (8) within_double_byte tests exactly the byte ranges of the double-byte encodings, compared as integer intervals (`> 0x80` and `>= 0x81` are the same); (9) calc_trim_text searches absolute columns from start_offs and returns a start offset that comes from a column search on every left-trimming path.'
    " Round 4: only get_char_width consults the wcwidth package (C11.3); (10) RANGE - every ordinal decode_one can return is at most 0x10FFFF (bit-arithmetic upper bounds, tightened by the branch's own comparison); (11) scan-exit twins; (12) a distance bound on the continuation-byte scans leaves room for 4 bytes; (13) PAIRLEN in apply_target_encoding."
    " Round-4 triage: (14) every position move_next_char returns is start + 1, clamped with min(.., end_offs), or the index of a scan bounded by end_offs. Round 5: (15) no memoised (lru_cache) function reads a rebindable module global such as the byte-encoding mode; (16) move_prev_char / move_next_char answer for non-UTF-8 bytes only after the within_double_byte() test."
    ' Round 6: (17) SIB: bytes the strict UTF-8 codec rejects are measured by walking with decode_one(), as the offset functions do; no width / offset function uses a codec error policy of its own.'
    ' Round 7: (19) TAB: the pairing DEC_SPECIAL_CHARS / ALT_DEC_SPECIAL_CHARS (folded) equals the VT100 special graphics set for every alias letter ` .. ~ - the one table urwid cannot cross-check against itself; (20) SIB: every within_double_byte() call passes the caller\'s own start offset as line start; (21) BOUND: every text[o] read of the continuation-byte scans is guarded by the range limit (fix fad7df9).'
    ' Round 8: (18) extended: the byte count is a width under utf8 only behind a regex predicate that is exact - the pattern is parsed (re._parser): `$` admits a trailing newline, \\\\Z / fullmatch do not; (22) SIB: one width source - no unicodedata / direct wcwidth call outside get_char_width().'
    ' Round-8 triage: (23) GUARD: no comparison decided by its own shape (x == x - 4; fix 39d8430).'
    " (24) TAB: the codec-name sets of set_encoding() are closed under the hyphen / underscore spellings and the canonical names of their members, evaluated through the function's own normalisation chain (fixes b2e4ecb, 7a0c255)."
)
NOT_DECIDED = "Additivity of widths, offset/column agreement, str-vs-bytes agreement for every code point, the padding flags of trimming, DEC special character mapping values - exhaustive value questions over code points."
ASSUMPTIONS = ["Canonical codec spellings are taken from the analysing interpreter's codec registry (codecs.lookup(name).name)."]

SU = "urwid.str_util"
MODES = {
    "calc_text_pos": {"str", "utf8", "wide"},
    "calc_width": {"str", "utf8"},
    "is_wide_char": {"str", "utf8", "wide"},
    "move_prev_char": {"str", "utf8", "wide"},
    "move_next_char": {"str", "utf8", "wide"},
}


def _mode_tests(fi):
    out = {}
    for n in fi.own_nodes():
        if isinstance(n, ast.Call) and isinstance(n.func, ast.Name) and n.func.id == "isinstance" and len(n.args) == 2 and ast.unparse(n.args[1]) == "str":
            out.setdefault("str", []).append(n)
        if isinstance(n, ast.Compare) and len(n.ops) == 1 and isinstance(n.ops[0], ast.Eq) and ast.unparse(n.left) == "_byte_encoding" and isinstance(n.comparators[0], ast.Constant):
            out.setdefault(n.comparators[0].value, []).append(n)
    return out


def rule_cover(ctx: Ctx) -> RuleResult:
    p = ctx.p
    rr = RuleResult("COVER", "C11.1", "each width function distinguishes the text types / encoding modes it must; mode literals are ones set_byte_encoding accepts", floor=17)
    sbe = p.func(f"{SU}.set_byte_encoding")
    accepted = set()
    for n in sbe.own_nodes():
        if isinstance(n, ast.Compare) and isinstance(n.ops[0], (ast.In, ast.NotIn)) and isinstance(n.comparators[0], (ast.Set, ast.Tuple, ast.List)):
            accepted |= {e.value for e in n.comparators[0].elts if isinstance(e, ast.Constant)}
    if not accepted:
        raise AnalysisError("set_byte_encoding: the set of accepted modes was not found")
    for name, want in MODES.items():
        fi = p.func(f"{SU}.{name}")
        got = _mode_tests(fi)
        cfg = cfg_of(fi)
        for m in sorted(want):
            rr.inst(f"{name}:{m}", True, {"function": name, "mode": m, "present": m in got} if len(rr.samples) < 6 else None)
            if m not in got:
                rr.add(finding("COVER", fi, fi.node, f"{name}() no longer distinguishes the {'str text type' if m == 'str' else repr(m) + ' byte encoding'}: text in that configuration is measured with another mode's rule", construct=f"{name}: no {m} case"))
        # str test dominates the byte paths: every _byte_encoding test is reached only over the F edge of the isinstance(text, str) test
        if "str" in got:
            stests = [n for n in cfg.nodes if n.kind == "test" and any(x is got["str"][0] for x in ast.walk(n.ast))]
            for m, nodes in got.items():
                if m == "str":
                    continue
                for c in nodes:
                    cn = [n for n in cfg.nodes if n.ast is not None and n.kind == "test" and any(x is c for x in ast.walk(n.ast))]
                    rr.inst(f"{name}:{m}:after str test", True)
                    if stests and cn and not all(x not in ExcEngine._reach_without_edge(cfg, stests[0], "F") for x in cn):
                        rr.add(finding("COVER", fi, c, f"in {name}() the `{m}` byte-mode test can be reached by str text: the str case no longer takes precedence", construct=f"{name}: {m} test not behind the str test"))
    # literals compared with the mode anywhere in the package
    for fi in p.functions.values():
        for n in fi.own_nodes():
            if isinstance(n, ast.Compare) and len(n.ops) == 1 and isinstance(n.comparators[0], ast.Constant) and isinstance(n.comparators[0].value, str):
                l = ast.unparse(n.left)
                if l in ("_byte_encoding", "str_util.get_byte_encoding()", "get_byte_encoding()", "util.get_encoding_mode()", "get_encoding_mode()", "em"):
                    if l == "em" and "get_byte_encoding" not in ast.unparse(fi.node):
                        continue
                    lit = n.comparators[0].value
                    rr.inst(f"{short(fi)}:{norm(n, 50)}", True)
                    if lit not in accepted:
                        rr.add(finding("COVER", fi, n, f"`{norm(n, 50)}` compares the byte-encoding mode with {lit!r}, which set_byte_encoding never stores ({sorted(accepted)})", construct=f"unknown mode literal {lit!r}"))
    return rr


def rule_encoding_literals(ctx: Ctx) -> RuleResult:
    p = ctx.p
    rr = RuleResult("TAB", "C11.2", "literals compared with get_encoding() are canonical codec spellings", floor=3)
    for fi in p.functions.values():
        if fi.is_lambda:
            continue
        du = None
        for n in fi.own_nodes():
            if not (isinstance(n, ast.Compare) and len(n.ops) == 1 and isinstance(n.ops[0], (ast.Eq, ast.NotEq, ast.In, ast.NotIn))):
                continue
            sides = [n.left, n.comparators[0]]
            lits = []
            for s_ in sides:
                if isinstance(s_, ast.Constant) and isinstance(s_.value, str):
                    lits.append(s_.value)
                elif isinstance(s_, (ast.Set, ast.Tuple, ast.List)):
                    lits += [e.value for e in s_.elts if isinstance(e, ast.Constant) and isinstance(e.value, str)]
            if not lits:
                continue
            other = [s_ for s_ in sides if not isinstance(s_, (ast.Constant, ast.Set, ast.Tuple, ast.List))]
            if not other:
                continue
            if du is None:
                du = DefUse(fi)
            at = du.node_of(n)
            txt = ast.unparse(du.expand(other[0], at)) if at is not None else ast.unparse(other[0])
            if not (txt.endswith("get_encoding()") or txt == "_target_encoding"):
                continue
            if fi.name == "set_encoding":
                continue
            for lit in lits:
                ident = f"{short(fi)}:{norm(n, 50)}:{lit}"
                try:
                    canon = codecs.lookup(lit).name
                except LookupError:
                    canon = None
                rr.inst(ident, True, {"function": short(fi), "comparison": norm(n, 60), "literal": lit, "canonical": canon} if len(rr.samples) < 6 else None)
                if canon is None:
                    rr.add(finding("TAB", fi, n, f"`{norm(n, 50)}` compares the target encoding with {lit!r}, which is not a codec name", construct=f"encoding literal {lit!r} unknown"))
                elif canon != lit and len(lits) == 1:
                    rr.add(finding("TAB", fi, n, f"`{norm(n, 50)}` compares the target encoding with the spelling {lit!r}; set_encoding() keeps the caller's spelling and the detected locale encoding is {canon!r}, so the branch is not taken for the usual spelling - decide on the encoding mode (get_encoding_mode()) or the canonical name", construct=f"non-canonical encoding literal {lit!r}"))
    return rr


def rule_width_source(ctx: Ctx) -> RuleResult:
    p = ctx.p
    rr = RuleResult("SIB", "C11.3", "get_width(o) is get_char_width(chr(o)) on every path; get_char_width returns the table value or 0", floor=2)
    gw = p.func(f"{SU}.get_width")
    prm = gw.params[0]
    rets = [n for n in gw.own_nodes() if isinstance(n, ast.Return)]
    rr.inst("get_width", True, {"returns": [norm(r, 50) for r in rets]})
    for r in rets:
        v = r.value
        ok = isinstance(v, ast.Call) and callee_name(v) == "get_char_width" and len(v.args) == 1 and isinstance(v.args[0], ast.Call) and callee_name(v.args[0]) == "chr" and ast.unparse(v.args[0].args[0]) == prm
        if not ok:
            rr.add(finding("SIB", gw, r, f"`{norm(r, 50)}`: get_width() answers with its own value instead of get_char_width(chr({prm})): the bytes paths (calc_text_pos, is_wide_char, the calc_width fallback) and the str paths then disagree about this character's width", construct=f"get_width returns {norm(v, 40) if v is not None else 'None'}"))
    if not rets:
        rr.add(finding("SIB", gw, gw.node, "get_width() has no return", construct="get_width without return"))
    gc = p.func(f"{SU}.get_char_width")
    rets = [n for n in gc.own_nodes() if isinstance(n, ast.Return)]
    du = DefUse(gc)
    rr.inst("get_char_width", True, {"returns": [norm(r, 50) for r in rets]})
    for r in rets:
        v = r.value
        t = ast.unparse(du.expand(v, du.node_of(r))) if v is not None else "None"
        ok = "wcwidth" in t or (isinstance(v, ast.Constant) and v.value == 0)
        if not ok:
            rr.add(finding("SIB", gc, r, f"get_char_width() returns `{t}`, neither the width table's answer nor 0", construct=f"get_char_width returns {t}"))
    # nobody else hard-codes a width: direct wcwidth users are only get_char_width
    users = [f for f in p.modules[SU].functions if any(isinstance(n, ast.Attribute) and n.attr in ("wcwidth", "wcswidth") for n in f.own_nodes())]
    for f in users:
        if f.name != "get_char_width":
            rr.inst(f"direct table user {short(f)}", True)
            site = next(n for n in f.own_nodes() if isinstance(n, ast.Attribute) and n.attr in ("wcwidth", "wcswidth"))
            rr.add(finding("SIB", f, site, f"{f.name}() consults the wcwidth package directly (`{norm(site, 40)}`): every other width - the offset search, is_wide_char, the bytes paths - comes from get_char_width() per code point; wcswidth() is grapheme-aware and not additive (ZWJ sequences, VS16, regional indicators), so widths no longer add up over character boundaries and str and bytes disagree", construct=f"{f.name} uses {norm(site, 40)} directly"))
    return rr


def rule_set_encoding_total(ctx: Ctx) -> RuleResult:
    p = ctx.p
    rr = RuleResult("PASS", "C11.4", "set_encoding defines the byte-encoding mode, _use_dec_special and _target_encoding on every path", floor=3)
    fi = p.func("urwid.util.set_encoding")
    cfg = cfg_of(fi)
    gl = set()
    for n in fi.own_nodes():
        if isinstance(n, ast.Global):
            gl |= set(n.names)
    if not gl:
        raise AnalysisError("set_encoding declares no globals")
    for g in sorted(gl):
        stores = [n for n in cfg.nodes if isinstance(n.ast, (ast.Assign, ast.AugAssign)) and any(isinstance(t, ast.Name) and t.id == g for t in (n.ast.targets if isinstance(n.ast, ast.Assign) else [n.ast.target]))]
        rr.inst(f"global {g}", True, {"global": g, "stores": len(stores)})
        if not stores or not cfg.must_pass(cfg.entry, stores, ends=[cfg.exit], labels=("n", "T", "F")):
            path = cfg.witness_path(cfg.entry, [cfg.exit], avoid=stores, labels=("n", "T", "F"))
            where = next((x for x in (path or []) if x.kind == "test"), None)
            rr.add(finding("PASS", fi, where.stmt if where is not None else fi.node, f"a path through set_encoding() does not assign `{g}`: the value left by the previously active encoding survives the switch, so behaviour depends on the history of set_encoding calls", construct=f"set_encoding: {g} not assigned on every path"))
    calls = nodes_where(cfg, lambda x: isinstance(x, ast.Call) and callee_name(x) == "set_byte_encoding")
    rr.inst("byte encoding mode", True, {"set_byte_encoding_calls": len(calls)})
    if not calls or not cfg.must_pass(cfg.entry, calls, ends=[cfg.exit], labels=("n", "T", "F")):
        rr.add(finding("PASS", fi, fi.node, "a path through set_encoding() does not call str_util.set_byte_encoding(): the width mode of the previous encoding stays active", construct="set_encoding: byte mode not set on every path"))
    return rr


def rule_deadcmp(ctx: Ctx) -> RuleResult:
    p = ctx.p
    rr = RuleResult("DEADCMP", "C11.6", "a `within_double_byte(...) == 2` test passes a line start different from the position (with equal arguments the answer is never 2)", floor=2)
    for mn in (SU, "urwid.text_layout", "urwid.util", "urwid.canvas", "urwid.display.escape", "urwid.widget.edit"):
        m = p.modules.get(mn)
        if m is None:
            continue
        for fi in m.functions:
            for n in fi.own_nodes():
                if not (isinstance(n, ast.Compare) and len(n.ops) == 1 and isinstance(n.left, ast.Call) and callee_name(n.left) == "within_double_byte" and isinstance(n.comparators[0], ast.Constant)):
                    continue
                c = n.left
                if len(c.args) < 3:
                    continue
                same = ast.unparse(c.args[1]) == ast.unparse(c.args[2])
                val = n.comparators[0].value
                rr.inst(f"{short(fi)}:{norm(n, 60)}", True, {"function": short(fi), "test": norm(n, 70), "line_start_equals_pos": same} if len(rr.samples) < 6 else None)
                if same and val == 2 and isinstance(n.ops[0], ast.Eq):
                    rr.add(finding("DEADCMP", fi, n, f"`{norm(n, 70)}` asks whether the position is the second half of a double-byte character but gives the position itself as the line start; within_double_byte cannot look back past the line start, so the answer is never 2 and the trailing byte is treated as a character of its own", construct=f"dead test {norm(n, 80)}"))
    return rr


INF = float("inf")


def _interval(c: ast.Compare):
    """integer interval [lo, hi] of the non-constant operand accepted by a comparison with constants; None when
    the comparison is not of that shape"""
    def fold_const(t):
        if isinstance(t, ast.Constant) and isinstance(t.value, int) and not isinstance(t.value, bool):
            return t.value
        if isinstance(t, ast.UnaryOp) and isinstance(t.op, ast.USub) and isinstance(t.operand, ast.Constant) and isinstance(t.operand.value, int):
            return -t.operand.value
        return None

    terms = [c.left, *c.comparators]
    vals = [fold_const(t) for t in terms]
    var = [i for i, v in enumerate(vals) if not isinstance(v, int)]
    if len(var) != 1:
        return None
    k = var[0]
    lo, hi = -INF, INF
    for i, op in enumerate(c.ops):
        a, b = i, i + 1
        if k not in (a, b):
            return None
        const = vals[b] if k == a else vals[a]
        left_is_var = k == a
        if isinstance(op, ast.Lt):
            if left_is_var:
                hi = min(hi, const - 1)
            else:
                lo = max(lo, const + 1)
        elif isinstance(op, ast.LtE):
            if left_is_var:
                hi = min(hi, const)
            else:
                lo = max(lo, const)
        elif isinstance(op, ast.Gt):
            if left_is_var:
                lo = max(lo, const + 1)
            else:
                hi = min(hi, const - 1)
        elif isinstance(op, ast.GtE):
            if left_is_var:
                lo = max(lo, const)
            else:
                hi = min(hi, const)
        else:
            return None
    return (lo, hi)


def rule_dbe_ranges(ctx: Ctx, clause: str = "C11.8") -> RuleResult:
    """within_double_byte() classifies bytes of the double-byte CJK encodings (Big5, GBK, UHC, EUC): second bytes
    that look like ASCII are 0x40..0x7E, they count only after a lead byte 0x81.., everything below 0x80 is a
    single byte.  The byte ranges are compared as integer intervals (so `> 0x80` and `>= 0x81` are the same)."""
    p = ctx.p
    rr = RuleResult("TAB", clause, "within_double_byte tests exactly the byte ranges of the double-byte encodings: trail 0x40..0x7E, lead >= 0x81, single byte < 0x80", floor=4)
    fi = p.func(f"{SU}.within_double_byte")
    got = []
    for c in fi.own_nodes():
        if isinstance(c, ast.Compare):
            iv = _interval(c)
            if iv is not None and iv != (-INF, INF):
                got.append((iv, c))
                rr.inst(norm(c, 40), True, {"test": norm(c, 40), "accepts": [None if x in (INF, -INF) else x for x in iv]})
    want = sorted([(0x40, 0x7E), (0x81, INF), (-INF, 0x7F), (-INF, 0x7F)], key=str)
    have = sorted([iv for iv, _c in got], key=str)
    if have != want:
        extra = [c for iv, c in got if iv not in want]
        at = extra[0] if extra else fi.node
        fmt = lambda ivs: ", ".join(f"[{'' if a == -INF else hex(a)}..{'' if b == INF else hex(b)}]" for a, b in ivs)
        rr.add(finding("TAB", fi, at, f"within_double_byte tests the byte ranges {fmt(have)}; the double-byte encodings need {fmt(want)} (ASCII-like trail bytes 0x40-0x7E, lead bytes from 0x81, single bytes below 0x80): a character whose lead or trail byte sits on the changed boundary is split into two", construct="double-byte byte ranges " + fmt(have)))
    return rr


def rule_trim_frame(ctx: Ctx, clause: str = "C11.9") -> RuleResult:
    """calc_trim_text(text, start_offs, end_offs, start_col, end_col): start_col / end_col count columns from
    start_offs.  A column search calc_text_pos(text, A, E, C) counts C from A, so
      - a search for an *absolute* column (C = start_col + k) must start at start_offs itself,
      - the start offset the function returns is found by such a column search on every path that trims on the left
        (a search for column start_col + 1 after a straddled double-width character also passes the zero-width marks
        attached to it; stepping one character does not)."""
    from ..rules.defuse import DefUse
    from ..rules.util import linear

    p = ctx.p
    rr = RuleResult("PAIR", clause, "calc_trim_text: column searches for absolute columns start at start_offs; the returned start offset comes from a column search", floor=3)
    fi = p.func("urwid.util.calc_trim_text")
    du = DefUse(fi)
    cfg = du.cfg
    so, eo, sc_, ec_ = fi.params[1:5]
    n = 0
    for node in cfg.nodes:
        if node.ast is None or node.kind in ("for", "with", "handler"):
            continue
        for c in walk_no_nested(node.ast):
            if isinstance(c, ast.Call) and callee_name(c) == "calc_text_pos" and len(c.args) == 4:
                L = linear(du.expand(c.args[3], node)) if True else None
                Lraw = linear(c.args[3])
                use = Lraw if Lraw is not None and any(k in (sc_, ec_) for k in Lraw) else L
                if use is None:
                    continue
                coef = use.get(sc_, 0) + use.get(ec_, 0)
                origin = du.text(c.args[1], node)
                n += 1
                rr.inst(norm(c, 60), True, {"search": norm(c, 70), "column_is": "absolute" if coef == 1 else "relative", "origin": origin})
                if coef == 1 and origin != so:
                    rr.add(finding("PAIR", fi, c, f"`{norm(c, 70)}` searches for the absolute column `{norm(c.args[3], 30)}` (counted from {so}) but starts counting at `{origin}`: the slice begins too far right whenever a double-width character straddles the left edge beyond column 1", construct=f"absolute column searched from {origin}"))
    if n < 2:
        raise AnalysisError("calc_trim_text: the calc_text_pos column searches were not found")
    # returned start offset: every definition made under `start_col > 0` is a column search result
    rets = [x for x in cfg.nodes if x.kind == "return" and isinstance(x.ast.value, ast.Tuple) and len(x.ast.value.elts) == 4]
    for r in rets:
        e0 = r.ast.value.elts[0]
        if not isinstance(e0, ast.Name):
            continue
        for v, how, dn in du.reaching(e0.id, r):
            rr.inst(f"start offset def {norm(dn.stmt, 40)}", True)
            ok = (isinstance(v, ast.Name) and v.id == so) or (isinstance(v, ast.Subscript) and isinstance(v.value, ast.Call) and callee_name(v.value) == "calc_text_pos") or (isinstance(v, ast.Call) and callee_name(v) == "calc_text_pos")
            if not ok:
                rr.add(finding("PAIR", fi, dn.stmt, f"the start offset returned by calc_trim_text can come from `{norm(dn.stmt, 50)}`, which is not a column search: after a double-width character cut at the left edge the zero-width marks attached to it must be passed too (calc_text_pos for column start_col + 1 does that)", construct=f"start offset from {norm(dn.stmt, 50)}"))
    return rr


def _ub(e, env):
    """upper bound of a non-negative integer expression built from byte values with & | << + and constants;
    None = unbounded / unknown"""
    if isinstance(e, ast.Constant) and isinstance(e.value, int) and not isinstance(e.value, bool):
        return e.value
    if isinstance(e, ast.Name):
        return env.get(e.id)
    if isinstance(e, ast.NamedExpr):
        return _ub(e.value, env)
    if isinstance(e, ast.BinOp):
        if isinstance(e.op, ast.BitAnd):
            a, b = _ub(e.left, env), _ub(e.right, env)
            return min(x for x in (a, b) if x is not None) if (a is not None or b is not None) else None
        a, b = _ub(e.left, env), _ub(e.right, env)
        if a is None or b is None:
            return None
        if isinstance(e.op, ast.LShift):
            return a << b
        if isinstance(e.op, (ast.BitOr, ast.Add)):
            return a + b  # >= a | b
        if isinstance(e.op, ast.Mult):
            return a * b
    return None


def rule_ordinal_range(ctx: Ctx, clause: str = "C11.10") -> RuleResult:
    """get_width() calls chr() on what decode_one() returns; chr() raises ValueError above 0x10FFFF.  Every ordinal
    decode_one can return is therefore bounded: the bit arithmetic of each branch gives an upper bound (x & K <= K,
    x << n, a | b <= a + b) which the branch's own comparison may tighten (`<= 0x10FFFF`)."""
    p = ctx.p
    rr = RuleResult("RANGE", clause, "every ordinal decode_one() can return is at most 0x10FFFF (the largest argument chr() accepts)", floor=4)
    fi = p.func(f"{SU}.decode_one")
    LIMIT = 0x10FFFF
    # byte variables: anything assigned from text[...] / ord(text[...]) or 0
    env = {}
    for n in fi.own_nodes():
        if isinstance(n, ast.Assign) and len(n.targets) == 1 and isinstance(n.targets[0], ast.Name):
            v = n.value
            if isinstance(v, ast.Subscript) or (isinstance(v, ast.Call) and isinstance(v.func, ast.Name) and v.func.id == "ord") or (isinstance(v, ast.Constant) and v.value == 0):
                env.setdefault(n.targets[0].id, 0)
                env[n.targets[0].id] = max(env[n.targets[0].id], 0xFF if not isinstance(v, ast.Constant) else 0)
    # str text: ord() of a str element can be up to 0x10FFFF, but then the first branch (b1 & 0x80 == 0) or the
    # masks bound the result all the same; the masks are what the bound uses
    n_ret = 0
    for iff in [n for n in fi.own_nodes() if isinstance(n, ast.If)]:
        for r in [x for x in iff.body if isinstance(x, ast.Return) and isinstance(x.value, ast.Tuple) and x.value.elts]:
            o = r.value.elts[0]
            bound = None
            why = ""
            if isinstance(o, ast.Name):
                # bound by a walrus in the test, possibly tightened by the comparison
                for c in ast.walk(iff.test):
                    if isinstance(c, ast.NamedExpr) and c.target.id == o.id:
                        bound = _ub(c.value, env)
                        why = f"bit arithmetic of `{norm(c.value, 60)}`"
                for c in ast.walk(iff.test):
                    if isinstance(c, ast.Compare):
                        terms = [c.left, *c.comparators]
                        for i, op in enumerate(c.ops):
                            l, rgt = terms[i], terms[i + 1]
                            is_o = lambda t: (isinstance(t, ast.Name) and t.id == o.id) or (isinstance(t, ast.NamedExpr) and t.target.id == o.id)
                            if is_o(l) and isinstance(op, (ast.Lt, ast.LtE)) and isinstance(rgt, ast.Constant):
                                k = rgt.value - (1 if isinstance(op, ast.Lt) else 0)
                                bound = k if bound is None else min(bound, k)
                                why += f", tightened by `{norm(c, 50)}`"
                            if is_o(rgt) and isinstance(op, (ast.Gt, ast.GtE)) and isinstance(l, ast.Constant):
                                k = l.value - (1 if isinstance(op, ast.Gt) else 0)
                                bound = k if bound is None else min(bound, k)
                                why += f", tightened by `{norm(c, 50)}`"
                if bound is None and o.id in env:
                    bound = env[o.id]
                    why = "a single byte"
            elif isinstance(o, ast.Call) and isinstance(o.func, ast.Name) and o.func.id == "ord":
                bound, why = 0xFF, "ord of a literal"
            n_ret += 1
            rr.inst(f"return {norm(r, 40)}", True, {"return": norm(r, 50), "upper_bound": hex(bound) if bound is not None else None, "from": why})
            if bound is None or bound > LIMIT:
                rr.add(finding("RANGE", fi, r, f"decode_one can return an ordinal as large as {hex(bound) if bound is not None else 'unbounded'} here ({why}); get_width() passes it to chr(), which raises ValueError above 0x10FFFF: byte text containing F4 90 80 80 .. F7 BF BF BF crashes every width / layout computation instead of being shown as '?'", construct=f"ordinal up to {hex(bound) if bound is not None else 'unbounded'} returned"))
    if n_ret < 3:
        raise AnalysisError("decode_one: the returns of the multi-byte branches were not found")
    return rr


def rule_scan_exit_twins(ctx: Ctx, clause: str = "C11.11") -> RuleResult:
    """calc_string_text_pos (str) and the UTF-8 branch of calc_text_pos (bytes) are the same column search over two
    representations: inside the scan loop both return exactly when the *next* character would not fit
    (`width + cols > pref_col`).  An extra or different exit (e.g. `cols >= pref_col`) stops before the zero-width
    characters that belong to the last fitting cell - and makes str and bytes layouts of one text disagree."""
    import copy

    p = ctx.p
    rr = RuleResult("SIB", clause, "the str and the UTF-8 column searches leave their scan loop under the same condition (the next character does not fit)", floor=2)

    def exits(fi, loop):
        # roles: width = name bound to get_char_width()/get_width(); cols = the name it is added to
        wn = {n.targets[0].id for n in ast.walk(loop) if isinstance(n, ast.Assign) and isinstance(n.targets[0], ast.Name) and isinstance(n.value, ast.Call) and callee_name(n.value) in ("get_char_width", "get_width")}
        cn = {n.target.id for n in ast.walk(loop) if isinstance(n, ast.AugAssign) and isinstance(n.target, ast.Name) and isinstance(n.value, ast.Name) and n.value.id in wn}
        out = []
        for n in ast.walk(loop):
            if isinstance(n, ast.If) and any(isinstance(x, ast.Return) for x in n.body):
                t = copy.deepcopy(n.test)
                for x in ast.walk(t):
                    if isinstance(x, ast.Name):
                        x.id = "WIDTH" if x.id in wn else "COLS" if x.id in cn else "TARGET" if x.id == fi.params[3] else x.id
                out.append((ast.unparse(t), n))
        return out

    a = p.func(f"{SU}.calc_string_text_pos")
    b = p.func(f"{SU}.calc_text_pos")
    la = [n for n in a.own_nodes() if isinstance(n, (ast.For, ast.While))]
    lb = [n for n in b.own_nodes() if isinstance(n, (ast.For, ast.While))]
    if not la or not lb:
        raise AnalysisError("calc_string_text_pos / calc_text_pos: scan loops not found")
    ea, eb = exits(a, la[0]), exits(b, lb[0])
    rr.inst("str scan exits", True, {"exits": [t for t, _ in ea]})
    rr.inst("utf8 scan exits", True, {"exits": [t for t, _ in eb]})
    sa, sb = sorted(t for t, _ in ea), sorted(t for t, _ in eb)
    if sa != sb:
        odd = next(((t, n, a) for t, n in ea if t not in sb), None) or next(((t, n, b) for t, n in eb if t not in sa), None)
        t, n, fi = odd
        rr.add(finding("SIB", fi, n, f"the scan loop of {fi.name} returns under `{t}`, its twin only under {sb if fi is a else sa}: the two column searches stop at different characters (a combining mark after the character that fills the last column ends up on the next line for one representation only)", construct=f"scan exit {t} has no counterpart in the twin"))
    return rr


def rule_utf8_scan_bound(ctx: Ctx, clause: str = "C11.12") -> RuleResult:
    """move_next_char / move_prev_char step over the continuation bytes of one UTF-8 character.  A UTF-8 sequence
    has up to 4 bytes (lead + 3 continuation bytes).  Apart from the limit of the range (C11.21) the scans need no distance bound; if
    one is written, it must leave room for all 4 bytes:
    forward `o < start + k` needs k >= 4, backward `o > end - k` needs k >= 4."""
    from ..rules.defuse import DefUse
    from ..rules.util import linear

    p = ctx.p
    rr = RuleResult("TAB", clause, "a distance bound on the UTF-8 continuation-byte scans of move_next_char / move_prev_char leaves room for a 4-byte sequence", floor=2)
    for q, anchor_i, sign in ((f"{SU}.move_next_char", 1, +1), (f"{SU}.move_prev_char", 2, -1)):
        fi = p.func(q)
        du = DefUse(fi)
        anchor = fi.params[anchor_i]
        loops = [n for n in du.cfg.nodes if n.kind == "test" and isinstance(n.stmt, ast.While) and "0xC0" in ast.unparse(n.stmt.test).replace("0xc0", "0xC0").replace("192", "0xC0")]
        rr.inst(short(fi), True, {"function": short(fi), "utf8_scan_loops": len(loops)})
        if not loops:
            raise AnalysisError(f"{q}: the UTF-8 continuation-byte loop (text[o] & 0xC0 == 0x80) was not found")
        seen = set()
        for n in loops:
            if id(n.stmt) in seen:
                continue
            seen.add(id(n.stmt))
            for c in ast.walk(n.stmt.test):
                if not (isinstance(c, ast.Compare) and len(c.ops) == 1 and isinstance(c.ops[0], (ast.Lt, ast.LtE, ast.Gt, ast.GtE)) and isinstance(c.left, ast.Name)):
                    continue
                bound = du.expand(c.comparators[0], n)
                # the candidates inside min(...) / max(...) or the expression itself
                cands = bound.args if isinstance(bound, ast.Call) and isinstance(bound.func, ast.Name) and bound.func.id in ("min", "max") else [bound]
                for b in cands:
                    L = linear(b)
                    if not L or L.get(anchor) != 1 or set(L) - {anchor, ""}:
                        continue
                    k = L.get("", 0)
                    incl = isinstance(c.ops[0], (ast.LtE, ast.GtE))
                    # forward: the scan must be able to pass start+1..start+3 and stop at start+4: `<` needs k >= 4, `<=` k >= 3
                    # backward: it must be able to pass end-1..end-3 and stop at end-4:        `>` needs k <= -4, `>=` k <= -3
                    ok = (k + (1 if incl else 0)) >= 4 if sign > 0 else (k - (1 if incl else 0)) <= -4
                    if k == 0:
                        continue  # the plain range limit (start/end of the text)
                    rr.inst(f"{short(fi)}:{norm(c, 40)}", True, {"bound": norm(b, 40), "constant": k})
                    if not ok:
                        rr.add(finding("TAB", fi, n.stmt, f"the continuation-byte scan is bounded by `{norm(b, 40)}`: a 4-byte UTF-8 character (lead + 3 continuation bytes, U+10000 and above) does not fit, so the step ends inside the character and next/previous no longer agree", construct=f"utf8 scan bounded by {norm(b, 40)}"))
    return rr


def rule_utf8_scan_range(ctx: Ctx, clause: str = "C11.21") -> RuleResult:
    """The continuation-byte scans read text[o] for a moving o.  Each read is guarded, earlier in the same `and`
    chain of the loop test, by the comparison of o with the limit of the range the caller passed: forward
    `o < end_offs`, backward `o > start_offs`.  Without it invalid UTF-8 (a run of continuation bytes with no lead
    byte in the range) walks the backward scan below start_offs and off the front of the text: before fix
    fad7df9 move_prev_char(b'\\x80', 0, 1) raised IndexError and (b'ab\\x80\\x80', 2, 4) answered 1."""
    from ..rules.defuse import DefUse

    p = ctx.p
    rr = RuleResult("BOUND", clause, "every text[o] read in the UTF-8 continuation-byte scans is guarded by o < end_offs (forward) / o > start_offs (backward) earlier in the loop test", floor=2)
    for q, limit_i, ops in ((f"{SU}.move_next_char", 2, (ast.Lt,)), (f"{SU}.move_prev_char", 1, (ast.Gt,))):
        fi = p.func(q)
        limit = fi.params[limit_i]
        loops = [n for n in fi.own_nodes() if isinstance(n, ast.While) and "0xC0" in ast.unparse(n.test).replace("0xc0", "0xC0").replace("192", "0xC0")]
        if not loops:
            raise AnalysisError(f"{q}: the UTF-8 continuation-byte loop was not found")
        du = DefUse(fi)
        tighter = "min" if ops == (ast.Lt,) else "max"

        def is_limit(e, at):
            # the limit itself, or a local that is min(limit, ...) forward / max(limit, ...) backward (never looser)
            b = du.expand(e, at) if at is not None else e
            if isinstance(b, ast.Name):
                return b.id == limit
            return isinstance(b, ast.Call) and isinstance(b.func, ast.Name) and b.func.id == tighter and any(isinstance(a, ast.Name) and a.id == limit for a in b.args)

        for w in loops:
            wn = next((n for n in du.cfg.nodes if n.kind == "test" and n.stmt is w), None)
            subs = [x for x in ast.walk(w.test) if isinstance(x, ast.Subscript) and isinstance(x.slice, ast.Name)]
            for sb in subs:
                o = sb.slice.id
                ok = False
                if isinstance(w.test, ast.BoolOp) and isinstance(w.test.op, ast.And):
                    for v in w.test.values:
                        if any(x is sb for x in ast.walk(v)):
                            break
                        if isinstance(v, ast.Compare) and len(v.ops) == 1:
                            l, r = v.left, v.comparators[0]
                            flipped = (ast.Gt,) if ops == (ast.Lt,) else (ast.Lt,)
                            if isinstance(l, ast.Name) and l.id == o and isinstance(v.ops[0], ops) and is_limit(r, wn):
                                ok = True
                            if isinstance(r, ast.Name) and r.id == o and isinstance(v.ops[0], flipped) and is_limit(l, wn):
                                ok = True
                rr.inst(f"{short(fi)}:{norm(sb, 30)}", True, {"function": short(fi), "read": norm(sb, 30), "limit": limit, "guarded": ok})
                if not ok:
                    rr.add(finding("BOUND", fi, w, f"the scan reads `{norm(sb, 30)}` without first comparing {o} with {limit}: a run of continuation bytes without a lead byte in the range (invalid UTF-8, or a range that starts inside a character) takes the scan outside [start_offs, end_offs) - an offset outside the range is returned, or text[-len-1] raises IndexError", construct=f"utf8 scan read {norm(sb, 30)} not limited by {limit}"))
    return rr


def rule_step_in_range(ctx: Ctx, clause: str = "C11.14") -> RuleResult:
    """move_next_char(text, start, end) promises a position in (start, end].  After the `start >= end` guard a step of
    one is always inside; a larger step is inside only if it is clamped with `min(.., end)` or produced by a scan loop
    whose condition keeps the index below `end` (the UTF-8 branch).  A double-byte lead that is the last byte of the
    range must not carry the position past the end."""
    from ..rules.defuse import DefUse
    from ..rules.util import linear

    p = ctx.p
    rr = RuleResult("BOUND", clause, "every position move_next_char returns is start + 1, clamped with min(.., end_offs), or the index of a scan loop bounded by end_offs", floor=3)
    fi = p.func(f"{SU}.move_next_char")
    start, end = fi.params[1], fi.params[2]
    du = DefUse(fi)
    for r in [n for n in fi.own_nodes() if isinstance(n, ast.Return) and n.value is not None]:
        v = r.value
        L = linear(v)
        ok, why = False, ""
        if L == {start: 1, "": 1}:
            ok, why = True, "single step"
        elif isinstance(v, ast.Call) and isinstance(v.func, ast.Name) and v.func.id == "min" and any(isinstance(a, ast.Name) and a.id == end for a in v.args):
            ok, why = True, "clamped with min(.., end)"
        elif isinstance(v, ast.Name):
            def bounded_by_end(w, b):
                heads = du.cfg.stmt_nodes(w)
                e = du.expand(b, heads[0]) if heads else b
                if isinstance(e, ast.Name) and e.id == end:
                    return True
                return isinstance(e, ast.Call) and isinstance(e.func, ast.Name) and e.func.id == "min" and any(isinstance(a, ast.Name) and a.id == end for a in e.args)

            loops = [w for w in fi.own_nodes() if isinstance(w, ast.While) and any(isinstance(c, ast.Compare) and isinstance(c.left, ast.Name) and c.left.id == v.id and isinstance(c.ops[0], ast.Lt) and bounded_by_end(w, c.comparators[0]) for c in ast.walk(w.test))]
            stores = [a for a in fi.own_nodes() if isinstance(a, (ast.Assign, ast.AugAssign)) and any(isinstance(t, ast.Name) and t.id == v.id for t in (a.targets if isinstance(a, ast.Assign) else [a.target]))]
            inside = {id(x) for w in loops for x in ast.walk(w)}
            seeds = [a for a in stores if id(a) not in inside]
            if loops and all(isinstance(a, ast.Assign) and linear(a.value) == {start: 1, "": 1} for a in seeds) and all(isinstance(a, ast.AugAssign) and isinstance(a.value, ast.Constant) and a.value.value == 1 for a in stores if id(a) in inside):
                ok, why = True, "scan index bounded by end"
        rr.inst(norm(r, 50), True, {"return": norm(r, 60), "why_in_range": why})
        if not ok:
            rr.add(finding("BOUND", fi, r, f"`{norm(r, 60)}` can return a position beyond `{end}`: a step of more than one byte is neither clamped with min(.., {end}) nor the index of a scan bounded by {end} - a double-byte lead that is the last byte of the range (a cut-off character) moves the position past the end of the text", construct=f"unclamped step: {norm(r, 60)}"))
    return rr


def rule_memo_globals(ctx: Ctx) -> RuleResult:
    """functools.lru_cache / cache key a result by the call's arguments only.  The width functions answer for the
    *current* byte encoding, a module global that set_byte_encoding() / set_encoding() rebind: a cached function
    whose result depends on such a global (directly or through the functions it calls) keeps answering for the
    encoding that was active at the first call, so calc_width() disagrees with calc_text_pos() / move_next_char()
    after a switch.  No memoised function of the library may read a rebindable module global."""
    p = ctx.p
    rr = RuleResult("MEMO", "C11.15", "no lru_cache/cache-decorated function reads (transitively) a module global that a setter rebinds (`global x`)", floor=2)
    mutable = {}
    for mn, m in p.modules.items():
        g = set()
        for fi in m.functions:
            for n in fi.own_nodes():
                if isinstance(n, ast.Global):
                    g |= set(n.names)
        if g:
            mutable[mn] = g
    rr.inst("rebindable module globals", True, {k.replace("urwid.", ""): sorted(v) for k, v in mutable.items()})

    def reads(fi, seen, depth=0):
        if id(fi) in seen or depth > 6:
            return []
        seen.add(id(fi))
        out = []
        g = mutable.get(fi.module.name, set())
        local_stores = {n.id for n in fi.own_nodes() if isinstance(n, ast.Name) and isinstance(n.ctx, ast.Store)} | set(fi.all_params)
        for n in fi.own_nodes():
            if isinstance(n, ast.Name) and isinstance(n.ctx, ast.Load) and n.id in g and n.id not in local_stores:
                out.append(f"{short(fi)} reads {n.id}")
            elif isinstance(n, ast.Call):
                for t in p.resolve_call(n, fi) or []:
                    if hasattr(t, "own_nodes"):
                        out += reads(t, seen, depth + 1)
        return out

    for fi in p.functions.values():
        decs = [ast.unparse(d) for d in getattr(fi.node, "decorator_list", [])]
        if not any(("lru_cache" in d or d.split("(")[0].endswith("cache")) and "cache_widget" not in d for d in decs):
            continue
        r = reads(fi, set())
        rr.inst(short(fi), True, {"memoised": short(fi), "decorator": decs, "reads_rebindable_global": r[:3]})
        if r:
            rr.add(finding("MEMO", fi, fi.node, f"{short(fi)}() is memoised by its arguments ({decs[0]}) but its result depends on a module global that a setter rebinds ({r[0]}): after set_encoding() switches the byte encoding the cache keeps returning the widths of the previous encoding, so the width functions disagree with the offset functions on the same bytes", construct=f"memoised function depends on a rebindable global: {r[0]}"))
    return rr


def rule_one_decoder(ctx: Ctx) -> RuleResult:
    """The offset functions (calc_text_pos, move_next_char, move_prev_char) walk UTF-8 bytes with the library's own
    lenient decoder decode_one(): an invalid or cut-off sequence counts one column *per byte*.  The width function has
    to count the same way, otherwise width and offsets disagree on exactly those bytes.  calc_width() may try the fast
    strict codec first, but (a) whenever that fails every path to a result walks with decode_one(), and (b) no width /
    offset function of str_util decodes with a codec error policy of its own ('replace' collapses a cut-off 2-byte
    prefix into ONE U+FFFD = 1 column where decode_one() gives 2; 'ignore' gives 0)."""
    p = ctx.p
    rr = RuleResult("SIB", "C11.17", "UTF-8 bytes that the strict codec rejects are measured with decode_one() like the offset functions walk them - no codec error policy ('replace' / 'ignore') of its own", floor=2)
    fi = p.func(f"{SU}.calc_width")
    cfg = cfg_of(fi)
    handlers = [n for n in cfg.nodes if n.kind == "handler" and n.ast.type is not None and "UnicodeDecodeError" in ast.unparse(n.ast.type)]
    walkers = nodes_where(cfg, lambda c: isinstance(c, ast.Call) and callee_name(c) == "decode_one")
    if not handlers:
        raise AnalysisError("calc_width: the UnicodeDecodeError handler of the strict fast path was not found")
    # a walk over zero bytes never enters the loop: the loop header stands for the walk
    loops = [w for w in fi.own_nodes() if isinstance(w, ast.While) and any(isinstance(c, ast.Call) and callee_name(c) == "decode_one" for c in ast.walk(w))]
    headers = [n for n in cfg.nodes if n.kind == "test" and any(n.stmt is w for w in loops)]
    for h in handlers:
        ok = bool(walkers) and cfg.must_pass(h, walkers + headers, ends=[cfg.exit], labels=("n", "T", "F"))
        rr.inst("calc_width: fallback walks with decode_one", True, {"handler": norm(h.ast, 40), "decode_one_calls": len(walkers), "every_path": ok})
        if not ok:
            rr.add(finding("SIB", fi, h.ast, "after the strict decode failed calc_width() can return without walking the bytes with decode_one(): the width of invalid / cut-off UTF-8 is no longer one column per byte as calc_text_pos() and move_next_char() count it, so widths and offsets disagree (calc_width(b'\\xe4\\xb8', 0, 2) != calc_text_pos(.., 99)[1])", construct="calc_width fallback without decode_one"))
    m = p.modules[SU]
    for f2 in m.functions:
        for c in f2.own_nodes():
            if isinstance(c, ast.Call) and isinstance(c.func, ast.Attribute) and c.func.attr == "decode":
                pol = c.args[1] if len(c.args) > 1 else next((k.value for k in c.keywords if k.arg == "errors"), None)
                ident = f"{short(f2)}: {norm(c, 50)}"
                rr.inst(ident, True, {"decode": ident, "error_policy": ast.unparse(pol) if pol is not None else "strict"})
                if pol is not None and not (isinstance(pol, ast.Constant) and pol.value == "strict"):
                    rr.add(finding("SIB", f2, c, f"`{norm(c, 60)}` decodes with the codec error policy {ast.unparse(pol)}: invalid bytes are counted differently from decode_one(), which the offset functions walk with (one column per byte)", construct=f"codec error policy {ast.unparse(pol)} in {f2.name}"))
    return rr


def rule_str_widths_per_character(ctx: Ctx) -> RuleResult:
    """For str text every character has its own width (0 for control and combining characters, 2 for wide ones);
    the column search calc_string_text_pos() adds get_char_width() per character.  calc_width() has to count the
    same way on its str branch: a shortcut that answers `end_offs - start_offs` there (e.g. for str.isascii() text)
    counts TAB / ESC / CR as one column each, so width and column search disagree on the same text.  The plain
    difference is a valid answer only for bytes in the narrow / wide encodings."""
    from ..rules.exc import ExcEngine
    from ..rules.util import linear

    p = ctx.p
    rr = RuleResult("SIB", "C11.18", "calc_width answers with the plain offset difference only for non-str text: on the str branch every result sums get_char_width per character", floor=2)
    fi = p.func(f"{SU}.calc_width")
    cfg = cfg_of(fi)
    prm, start, end = fi.params[0], fi.params[1], fi.params[2]
    is_str = [t for t in cfg.nodes if t.kind == "test" and isinstance(t.ast, ast.Call) and callee_name(t.ast) == "isinstance" and len(t.ast.args) == 2 and isinstance(t.ast.args[0], ast.Name) and t.ast.args[0].id == prm and ast.unparse(t.ast.args[1]) == "str"]
    if not is_str:
        raise AnalysisError("calc_width: the isinstance(text, str) test was not found")
    for r in [n for n in cfg.nodes if n.kind == "return" and n.ast.value is not None]:
        on_str = any(r not in ExcEngine._reach_without_edge(cfg, t, "T") for t in is_str)
        plain = linear(r.ast.value) == {end: 1, start: -1}
        rr.inst(norm(r.ast, 50), True, {"return": norm(r.ast, 70), "on_str_branch": on_str, "plain_difference": plain})
        if on_str and plain:
            rr.add(finding("SIB", fi, r.ast, f"`{norm(r.ast, 50)}` answers for str text with the number of characters: control characters (TAB, ESC, CR - width 0 in urwid's table) and wide characters are miscounted, while calc_text_pos() still adds get_char_width() per character - the layout's two helpers disagree (spurious blank rows, IndexError in the space wrap)", construct="str width taken as character count"))
        if on_str and not plain and not any(isinstance(c, ast.Call) and callee_name(c) in ("get_char_width", "get_width") for c in ast.walk(r.ast.value)):
            rr.add(finding("SIB", fi, r.ast, f"`{norm(r.ast, 50)}` answers for str text without consulting get_char_width()", construct="str width not per character"))
        if plain and not on_str:
            # bytes: the difference is right for the narrow / wide modes only.  Under utf8 it is reached either not at
            # all (a pure `_byte_encoding == "utf8"` test left on its false edge) or for text that a conjoined regex
            # predicate shows to consist of one-column printable ASCII *exactly* - `$` also matches before a final
            # newline (width 0), only \Z / fullmatch() do not (seed C11-r8a)
            ok, why = False, "no test of the byte mode on the way"
            for t in cfg.nodes:
                if t.kind != "test" or r in ExcEngine._reach_without_edge(cfg, t, "F"):
                    continue
                conj = t.ast.values if isinstance(t.ast, ast.BoolOp) and isinstance(t.ast.op, ast.And) else [t.ast]
                mode = [c for c in conj if isinstance(c, ast.Compare) and len(c.ops) == 1 and isinstance(c.ops[0], ast.Eq) and "_byte_encoding" in ast.unparse(c.left) and isinstance(c.comparators[0], ast.Constant) and c.comparators[0].value == "utf8"]
                if not mode:
                    continue
                extras = [c for c in conj if c not in mode]
                if not extras:
                    ok, why = True, "pure byte-mode test"
                    break
                bad = [c for c in extras if not _exact_printable_predicate(p, fi, c)]
                ok, why = (not bad), ("conjoined predicates are exact printable-ASCII tests" if not bad else f"`{norm(bad[0], 50)}` does not show the text to be printable ASCII only")
                break
            rr.inst(f"bytes:{norm(r.ast, 40)}", True, {"return": norm(r.ast, 60), "reached_under_utf8": why})
            if not ok:
                rr.add(finding("SIB", fi, r.ast, f"`{norm(r.ast, 50)}` (one column per byte) can be reached in the utf8 byte mode: {why} - a control byte or a multi-byte character is counted one column per byte while calc_text_pos() uses the width table (b'abc\\n': width 4 here, 3 there)", construct="byte count as width reachable under utf8"))
    return rr


def rule_fixed_comparisons(ctx: Ctx) -> RuleResult:
    """A bound that can never hold bounds nothing: decode_one_right() meant to give up after four bytes with
    `if p == p - 4` - a comparison of a variable with itself shifted by a constant, false for every p, so the backward
    scan over continuation bytes was unbounded and its error result unreachable (fix 39d8430).  In the measuring
    modules every comparison whose two sides are linear forms has a difference that still depends on a variable; a
    difference that folds to a non-zero constant (or to 0 under ==) decides the test once and for all."""
    from ..rules.util import lin_str, linear

    p = ctx.p
    rr = RuleResult("GUARD", "C11.23", "no comparison in the text-measuring modules is decided by its own shape (both sides the same linear form up to a constant)", floor=40)
    for fi in p.functions.values():
        if fi.module.name not in ("urwid.str_util", "urwid.util", "urwid.text_layout") or fi.is_lambda:
            continue
        for n in fi.own_nodes():
            if not (isinstance(n, ast.Compare) and len(n.ops) == 1 and isinstance(n.ops[0], (ast.Eq, ast.NotEq, ast.Lt, ast.LtE, ast.Gt, ast.GtE))):
                continue
            a, b = linear(n.left), linear(n.comparators[0])
            if a is None or b is None or not (set(a) - {""}) or not (set(b) - {""}):
                continue
            d = dict(a)
            for k, v in b.items():
                d[k] = d.get(k, 0) - v
            d = {k: v for k, v in d.items() if v}
            fixed = not (set(d) - {""})
            rr.inst(f"{short(fi)}: {norm(n, 40)}", True, {"comparison": f"{short(fi)}: {norm(n, 50)}", "difference": lin_str(d) if d else "0"} if len(rr.samples) < 5 else None)
            if fixed:
                rr.add(finding("GUARD", fi, n, f"`{norm(n, 50)}` compares a quantity with itself plus a constant (difference {lin_str(d) if d else '0'}): the outcome is the same for every input, so what it guards either always or never happens - a loop bound written this way bounds nothing", construct=f"{fi.name}: comparison decided by its own shape"))
    return rr


def rule_encoding_spellings(ctx: Ctx) -> RuleResult:
    """'the three encoding modes': set_encoding() picks the byte mode by looking the name up in literal sets.  Codec
    names have several spellings - Python's own module names use underscores (utf_8, euc_jp), locales and users
    hyphens - and a spelling that falls through every set silently selects the *narrow* mode for a UTF-8 or a
    double-byte encoding: offsets land inside characters, widths are byte counts.  The literal sets are closed under
    spelling: for every literal that names a real codec, its underscore / hyphen variants and the codec's canonical
    name, put through the same normalisation set_encoding() applies to its argument (the chain of str methods in
    front of the tests), are members of the same set (the canonical name counts: cp949 next to its alias uhc, fix 7a0c255).  Before fix b2e4ecb set_encoding('utf_8') gave narrow mode."""
    import codecs as _codecs

    p = ctx.p
    rr = RuleResult("TAB", "C11.24", "the codec-name sets of set_encoding() are closed under the hyphen / underscore spellings of their members (after the function's own normalisation)", floor=8)
    fi = p.func("urwid.util.set_encoding")
    prm = fi.params[0]
    # the normalisation chain applied to names derived from the parameter: lower(), replace(a, b)
    chains = {prm: []}
    for n in fi.own_nodes():
        if isinstance(n, ast.Assign) and len(n.targets) == 1 and isinstance(n.targets[0], ast.Name) and isinstance(n.value, ast.Call) and isinstance(n.value.func, ast.Attribute) and isinstance(n.value.func.value, ast.Name) and n.value.func.value.id in chains:
            step = None
            if n.value.func.attr == "lower" and not n.value.args:
                step = ("lower",)
            elif n.value.func.attr == "replace" and len(n.value.args) == 2 and all(isinstance(a, ast.Constant) for a in n.value.args):
                step = ("replace", n.value.args[0].value, n.value.args[1].value)
            if step:
                chains[n.targets[0].id] = chains[n.value.func.value.id] + [step]
        elif isinstance(n, ast.Assign) and len(n.targets) == 1 and isinstance(n.targets[0], ast.Name) and isinstance(n.value, ast.Name) and n.value.id in chains and n.targets[0].id not in chains:
            chains[n.targets[0].id] = list(chains[n.value.id])  # a plain alias

    def normalise(name, chain):
        for st in chain:
            name = name.lower() if st[0] == "lower" else name.replace(st[1], st[2])
        return name

    for t in [n for n in fi.own_nodes() if isinstance(n, ast.Compare) and isinstance(n.ops[0], ast.In) and isinstance(n.left, ast.Name) and n.left.id in chains and isinstance(n.comparators[0], (ast.Set, ast.Tuple, ast.List))]:
        lits = {e.value for e in t.comparators[0].elts if isinstance(e, ast.Constant) and isinstance(e.value, str)}
        chain = chains[t.left.id]
        for lit in sorted(lits):
            try:
                canon = _codecs.lookup(lit).name
            except LookupError:
                continue
            variants = {lit, lit.replace("-", "_"), lit.replace("_", "-"), canon, canon.replace("-", "_"), canon.replace("_", "-"), lit.upper()}
            # the canonical name of an alias may be another family member; only spellings of *this* literal and of its
            # canonical name are required
            missing = sorted(v for v in variants if normalise(v, chain) not in lits and normalise(v, chain) not in {normalise(x, chain) for x in lits})
            rr.inst(f"{lit}", True, {"literal": lit, "canonical": canon, "tested_name": t.left.id, "normalisation": chain, "missing_spellings": missing} if len(rr.samples) < 5 else None)
            if missing:
                rr.add(finding("TAB", fi, t, f"set_encoding() accepts {lit!r} for this byte mode but not the spelling(s) {missing} of the same codec (its argument is only put through {chain or 'nothing'} before the test): such a name falls through to the narrow mode although the encoding is multi-byte - offsets land inside characters", construct=f"spellings {missing} of {lit!r} not recognised"))
    return rr


def rule_one_width_source(ctx: Ctx) -> RuleResult:
    """'offset stepping, column search and width agree': they agree because every one of them takes a character's
    width from the same table, get_char_width() (get_width() for code points).  A second source - unicodedata's
    east_asian_width(), wcwidth called directly, str.isprintable() - agrees for common text and differs for hundreds
    of code points (regional indicators, hexagram symbols, combining CJK marks; seed C11-r8b put one into
    is_wide_char()).  (a) in the text-measuring modules only get_char_width() itself consults wcwidth, and nothing
    consults unicodedata; (b) every `== 2` / `== 0` width decision of is_wide_char compares a get_char_width() /
    get_width() result."""
    p = ctx.p
    rr = RuleResult("SIB", "C11.22", "a character's width is taken from get_char_width() / get_width() only: no second width source in the measuring modules", floor=4)
    foreign = {"east_asian_width", "wcswidth", "wcwidth", "combining", "category"}
    for fi in p.functions.values():
        if fi.module.name not in ("urwid.str_util", "urwid.util", "urwid.text_layout", "urwid.canvas") or fi.is_lambda:
            continue
        for c in fi.own_nodes():
            if isinstance(c, ast.Call) and isinstance(c.func, ast.Attribute) and c.func.attr in foreign and isinstance(c.func.value, ast.Name) and c.func.value.id in ("unicodedata", "wcwidth"):
                owner = fi.name == "get_char_width"
                rr.inst(f"{short(fi)}: {norm(c, 40)}", True, {"call": f"{short(fi)}: {norm(c, 50)}", "inside_the_width_table_function": owner})
                if not owner:
                    rr.add(finding("SIB", fi, c, f"`{norm(c, 50)}` is a second source of character widths next to get_char_width(): the two agree on common text and differ on hundreds of code points (U+1F1E6.., U+4DC0.., U+302A..), so this function disagrees with calc_width() / calc_text_pos() about the same character", construct=f"{fi.name}: width from {c.func.value.id}.{c.func.attr}"))
    iw = p.func(f"{SU}.is_wide_char")
    for r in [n for n in iw.own_nodes() if isinstance(n, ast.Return) and isinstance(n.value, ast.Compare)]:
        src = [callee_name(x) for x in ast.walk(r.value) if isinstance(x, ast.Call)]
        if not src:
            # a local compared: where does it come from?
            du = DefUse(iw)
            at = du.node_of(r)
            src = [callee_name(x) for x in ast.walk(du.expand(r.value, at)) if isinstance(x, ast.Call)] if at is not None else []
        ok = any(s_ in ("get_char_width", "get_width", "within_double_byte") for s_ in src)
        rr.inst(f"is_wide_char: {norm(r, 50)}", True, {"return": norm(r, 60), "width_from": src})
        if not ok:
            rr.add(finding("SIB", iw, r, f"`{norm(r, 60)}` decides 'wide' without get_char_width() / get_width(): it can disagree with the width calc_width() reports for the same character", construct="is_wide_char: width not from the table"))
    return rr


def _exact_printable_predicate(p, fi, c) -> bool:
    """`not RE.match(x)` / `not RE.fullmatch(x)` (we are on the false edge of the conjunction, i.e. the predicate held)
    where RE is a module constant whose pattern accepts nothing but bytes 0x20..0x7e to the very end"""
    import re._parser as rp

    if not (isinstance(c, ast.UnaryOp) and isinstance(c.op, ast.Not) and isinstance(c.operand, ast.Call) and isinstance(c.operand.func, ast.Attribute) and isinstance(c.operand.func.value, ast.Name)):
        return False
    meth, name = c.operand.func.attr, c.operand.func.value.id
    b = fi.module.bindings.get(name)
    if meth not in ("match", "fullmatch") or b is None or b[0] != "assign" or not (isinstance(b[1], ast.Call) and callee_name(b[1]) == "compile" and b[1].args and isinstance(b[1].args[0], ast.Constant)):
        return False
    pat = b[1].args[0].value
    try:
        tree = list(rp.parse(pat))
    except Exception:
        return False
    ops = [str(op) for op, _a in tree]
    if ops and ops[0] == "AT" and str(tree[0][1]) in ("AT_BEGINNING", "AT_BEGINNING_STRING"):
        tree = tree[1:]
    end_exact = meth == "fullmatch"
    if tree and str(tree[-1][0]) == "AT":
        if str(tree[-1][1]) == "AT_END_STRING":
            end_exact = True
        tree = tree[:-1]
    if not end_exact or len(tree) != 1 or str(tree[0][0]) not in ("MAX_REPEAT", "MIN_REPEAT"):
        return False
    _lo, _hi, sub = tree[0][1]
    sub = list(sub)
    if len(sub) != 1 or str(sub[0][0]) != "IN":
        return False
    for op, a in sub[0][1]:
        if str(op) == "RANGE":
            if not (0x20 <= a[0] and a[1] <= 0x7E):
                return False
        elif str(op) == "LITERAL":
            if not 0x20 <= a <= 0x7E:
                return False
        else:
            return False
    return True


# the DEC Special Graphics set (VT100 line drawing) as the terminal standards define it: the character a terminal
# shows for each byte 0x60..0x7e while G0/G1 designates "0".  Not derived from the repository.
_VT100_SPECIAL_GRAPHICS = {
    "`": "◆", "a": "▒", "b": "␉", "c": "␌", "d": "␍", "e": "␊", "f": "°", "g": "±", "h": "␤", "i": "␋",
    "j": "┘", "k": "┐", "l": "┌", "m": "└", "n": "┼", "o": "⎺", "p": "⎻", "q": "─", "r": "⎼", "s": "⎽",
    "t": "├", "u": "┤", "v": "┴", "w": "┬", "x": "│", "y": "≤", "z": "≥", "{": "π", "|": "≠", "}": "£", "~": "·",
}  # fmt: skip


def rule_dec_table(ctx: Ctx) -> RuleResult:
    """In every non-UTF-8 encoding the line-drawing characters of a text are sent as their DEC Special Graphics alias
    (SO, letter, SI); the widths and charset runs are computed for that one-column letter.  The pairing of
    DEC_SPECIAL_CHARS with ALT_DEC_SPECIAL_CHARS is data, and urwid's own reverse tables (html, vterm) are derived
    from the same two strings - so a transposition is invisible to any round trip inside urwid.  The pairing is
    compared with the standard table itself: for every alias letter of the standard, the character urwid pairs with
    it (folded from the two constants) is the standard's."""
    p = ctx.p
    rr = RuleResult("TAB", "C11.19", "DEC_SPECIAL_CHARS pairs every alias letter with the character the VT100 special graphics set defines for it", floor=25)
    m = p.modules["urwid.display.escape"]
    chars, alts = fold_module_name(p, m, "DEC_SPECIAL_CHARS"), fold_module_name(p, m, "ALT_DEC_SPECIAL_CHARS")
    if not isinstance(chars, str) or not isinstance(alts, str) or len(chars) != len(alts):
        raise AnalysisError("escape.DEC_SPECIAL_CHARS / ALT_DEC_SPECIAL_CHARS could not be folded to two strings of equal length")
    node = next((n for n in m.tree.body if isinstance(n, ast.Assign) and any(isinstance(t, ast.Name) and t.id == "DEC_SPECIAL_CHARS" for t in n.targets)), None)
    pairing = dict(zip(alts, chars))
    for alias, std in _VT100_SPECIAL_GRAPHICS.items():
        got = pairing.get(alias)
        rr.inst(f"alias {alias!r}", True, {"alias": alias, "urwid": got, "standard": std} if len(rr.samples) < 4 else None)
        if got != std:
            rr.add(finding("TAB", "display.escape", node, f"DEC_SPECIAL_CHARS pairs the alias {alias!r} with {got!r}; a terminal in the special graphics set shows {std!r} for {alias!r}: text containing {std!r} is drawn with another glyph in every non-UTF-8 encoding (urwid's own reverse tables are derived from the same constant and agree with the mistake)", construct=f"DEC special graphics alias {alias!r} paired with {got!r}", file="urwid/display/escape.py"))
    return rr


def rule_dbe_line_start(ctx: Ctx) -> RuleResult:
    """within_double_byte(text, line_start, pos) decides whether pos is the first or second byte of a double-byte
    character by counting the run of high bytes back to *line_start*: bytes before it are not part of the text being
    measured.  Every width / offset function passes its own start offset (its second parameter) there - a constant
    (0) makes the answer depend on what precedes the range: an odd run of high bytes in front of start_offs flips the
    parity and the column search returns a position on a trail byte."""
    p = ctx.p
    rr = RuleResult("SIB", "C11.20", "every call of within_double_byte in str_util passes the calling function's own start offset as the line start", floor=3)
    for fi in p.modules[SU].functions:
        if fi.name == "within_double_byte" or len(fi.params) < 2:
            continue
        for c in fi.own_nodes():
            if isinstance(c, ast.Call) and callee_name(c) == "within_double_byte" and len(c.args) >= 3:
                a = c.args[1]
                ok = isinstance(a, ast.Name) and a.id == fi.params[1]
                rr.inst(f"{short(fi)}: {norm(c, 50)}", True, {"call": f"{short(fi)}: {norm(c, 60)}", "line_start": ast.unparse(a), "own_start_parameter": fi.params[1]})
                if not ok:
                    rr.add(finding("SIB", fi, c, f"`{norm(c, 60)}` counts the high bytes back to `{ast.unparse(a)}` instead of to {fi.name}()'s own start offset `{fi.params[1]}`: bytes in front of the measured range decide whether a byte is taken for a lead or a trail byte (an odd run of high bytes before {fi.params[1]} puts the result on a trail byte, the column no longer equals calc_width of the prefix)", construct=f"within_double_byte line start {ast.unparse(a)} instead of {fi.params[1]}"))
    return rr


def rule_dbe_consulted(ctx: Ctx) -> RuleResult:
    """In the double-byte encodings the second byte of a character can be an ASCII-range value (Big5 / GBK / UHC trail
    bytes 0x40..0x7E): whether a byte is a character of its own is only known to within_double_byte().  In the
    character-stepping functions every answer for bytes text that is not given on the str or the UTF-8 branch
    therefore has to come after the wide-mode test that calls within_double_byte() - a shortcut such as
    `if text[end - 1] < 0x80: return end - 1` lands inside a double-byte character."""
    p = ctx.p
    rr = RuleResult("PASS", "C11.16", "move_prev_char / move_next_char answer for non-UTF-8 bytes only after the wide-mode test that consults within_double_byte()", floor=2)
    for q in (f"{SU}.move_prev_char", f"{SU}.move_next_char"):
        fi = p.func(q)
        cfg = cfg_of(fi)
        tests = [t for t in cfg.nodes if t.kind == "test"]
        wide = [t for t in tests if any(isinstance(x, ast.Call) and callee_name(x) == "within_double_byte" for x in ast.walk(t.ast))]
        utf8 = [t for t in tests if any(isinstance(x, ast.Constant) and x.value == "utf8" for x in ast.walk(t.ast))]
        is_str = [t for t in tests if isinstance(t.ast, ast.Call) and callee_name(t.ast) == "isinstance" and len(t.ast.args) == 2 and ast.unparse(t.ast.args[1]) == "str"]
        if not wide:
            raise AnalysisError(f"{q}: the wide-mode test calling within_double_byte() was not found")
        n_ret = 0
        for r in [n for n in cfg.nodes if n.kind == "return"]:
            if any(r not in ExcEngine._reach_without_edge(cfg, t, "T") for t in is_str + utf8):
                continue  # answered on the str / UTF-8 branch
            n_ret += 1
            if not cfg.dominated(r, wide):
                rr.add(finding("PASS", fi, r.stmt, f"`{norm(r.stmt, 40)}` answers for bytes text before the wide-mode test that calls within_double_byte(): in Big5 / GBK / UHC the trail byte of a double-byte character can be below 0x80 (0x40..0x7E), so a byte-value shortcut steps into the middle of a character while the opposite direction still steps over both bytes", construct=f"{fi.name}: answer before the double-byte test: {norm(r.stmt, 40)}"))
        rr.inst(short(fi), True, {"function": short(fi), "bytes_answers_outside_str_and_utf8": n_ret, "wide_tests": [norm(t.ast, 70) for t in wide]})
    return rr


def run(ctx: Ctx):
    p = ctx.p
    loops = [f.qualname for f in p.modules[SU].functions if any(isinstance(n, ast.While) for n in f.own_nodes())]
    return [
        rule_cover(ctx),
        rule_encoding_literals(ctx),
        rule_width_source(ctx),
        rule_set_encoding_total(ctx),
        prog.run_progress(p, "C11.5", loops, floor=4, description="the byte-walking loops of str_util advance their index on every back edge"),
        rule_deadcmp(ctx),
        kind.run_kind(p, "C11.7", [SU, "urwid.util"], floor=1),
        rule_dbe_ranges(ctx),
        rule_trim_frame(ctx),
        rule_ordinal_range(ctx),
        rule_scan_exit_twins(ctx),
        rule_utf8_scan_bound(ctx),
        pairlen.run_pairlen(p, "C11.13", ["urwid.util.apply_target_encoding"], floor=4),
        rule_step_in_range(ctx),
        rule_utf8_scan_range(ctx),
        rule_one_width_source(ctx),
        rule_fixed_comparisons(ctx),
        rule_encoding_spellings(ctx),
        rule_memo_globals(ctx),
        rule_dbe_consulted(ctx),
        rule_one_decoder(ctx),
        rule_str_widths_per_character(ctx),
        rule_dec_table(ctx),
        rule_dbe_line_start(ctx),
    ]


_S = "urwid/str_util.py"
_U = "urwid/util.py"
MUTANTS = [
    Mut("twin-is-wide-char-width-local", "urwid/str_util.py", "is_wide_char", "        return get_char_width(text[offs]) == 2\n", "        width = get_char_width(text[offs])\n        return width == 2\n", twin=True),
    Mut("set-encoding-underscore-spelling-unknown", "urwid/util.py", "set_encoding", "    family = encoding.replace(\"_\", \"-\")\n", "    family = encoding\n", "TAB|util.set_encoding|spellings"),
    Mut("decode-one-right-bound-on-itself", "urwid/str_util.py", "decode_one_right", "if p == pos - 4:", "if p == p - 4:", "GUARD|str_util.decode_one_right|decode_one_right: comparison decided by its own shape"),
    Mut("prev-char-scan-unbounded", "urwid/str_util.py", "move_prev_char", "while o > start_offs and text[o] & 0xC0 == 0x80:", "while text[o] & 0xC0 == 0x80:", "BOUND|str_util.move_prev_char|utf8 scan read text[o] not limited by start_offs"),
    Mut("next-char-scan-unbounded", "urwid/str_util.py", "move_next_char", "while o < end_offs and text[o] & 0xC0 == 0x80:", "while text[o] & 0xC0 == 0x80:", "BOUND|str_util.move_next_char|utf8 scan read text[o] not limited by end_offs"),
    Mut("twin-prev-char-bound-flipped", "urwid/str_util.py", "move_prev_char", "while o > start_offs and text[o] & 0xC0 == 0x80:", "while start_offs < o and text[o] & 0xC0 == 0x80:", twin=True),
    Mut("dec-table-tees-transposed", "urwid/display/escape.py", None, "├┤┴┬│", "├┤┬┴│", "TAB|display.escape|DEC special graphics alias 'v' paired with"),
    Mut("calc-text-pos-line-start-zero", "urwid/str_util.py", "calc_text_pos", "within_double_byte(text, start_offs, i) == 2", "within_double_byte(text, 0, i) == 2", "SIB|str_util.calc_text_pos|within_double_byte line start 0 instead of start_offs"),
    Mut("calc-width-ascii-str-shortcut", "urwid/str_util.py", "calc_width", "    if isinstance(text, str):\n        return sum(", "    if isinstance(text, str):\n        if text.isascii():\n            return end_offs - start_offs\n        return sum(", "SIB|str_util.calc_width|str width taken as character count"),
    Mut("calc-width-lenient-codec", "urwid/str_util.py", "calc_width", '.decode("utf-8"))', '.decode("utf-8", "ignore"))', "SIB|str_util.calc_width|codec error policy"),
    Mut("calc-width-fallback-counts-bytes", "urwid/str_util.py", "calc_width", "        i = start_offs\n        sc = 0\n        while i < end_offs:\n            o, i = decode_one(text, i)\n            w = get_width(o)\n            sc += w\n        return sc\n", "        return end_offs - start_offs\n", "SIB|str_util.calc_width|calc_width fallback without decode_one"),
    Mut("prev-char-ascii-shortcut", _S, "move_prev_char", "    if _byte_encoding == \"utf8\":\n        o = end_offs - 1", "    if text[end_offs - 1] < 0x80:\n        return end_offs - 1\n    if _byte_encoding == \"utf8\":\n        o = end_offs - 1", "PASS|str_util.move_prev_char"),
    Mut("calc-width-memoised-across-encodings", _S, "calc_width", "def calc_width(text: str | bytes, start_offs: int, end_offs: int) -> int:", "@functools.lru_cache(maxsize=1024)\ndef calc_width(text: str | bytes, start_offs: int, end_offs: int) -> int:", "MEMO|str_util.calc_width", also=[("import re\n", "import functools\nimport re\n")]),
    Mut("next-char-double-byte-step-unclamped", _S, "move_next_char", "return min(start_offs + 2, end_offs)", "return start_offs + 2", "BOUND|str_util.move_next_char"),
    Mut("twin-next-char-clamp-arg-order", _S, "move_next_char", "return min(start_offs + 2, end_offs)", "return min(end_offs, start_offs + 2)", twin=True),
    Mut("charset-run-of-unstripped-segment", _U, "apply_target_encoding", "cout.append((None, len(sis0)))", "cout.append((None, len(sis[0])))", "PAIRLEN|util.apply_target_encoding"),
    Mut("calc-width-by-wcswidth", _S, "calc_width", "    if isinstance(text, str):\n        return sum(", "    if isinstance(text, str):\n        if (width := wcwidth.wcswidth(text[start_offs:end_offs])) >= 0:\n            return width\n        return sum(", "SIB|str_util.calc_width"),
    Mut("next-char-scan-three-bytes", _S, "move_next_char", "        while o < end_offs and text[o] & 0xC0 == 0x80:", "        limit = min(end_offs, start_offs + 3)\n        while o < limit and text[o] & 0xC0 == 0x80:", "TAB|str_util.move_next_char"),
    Mut("prev-char-scan-three-bytes", _S, "move_prev_char", "        while o > start_offs and text[o] & 0xC0 == 0x80:", "        stop = max(start_offs, end_offs - 3)\n        while o > stop and text[o] & 0xC0 == 0x80:", "TAB|str_util.move_prev_char"),
    Mut("twin-next-char-scan-four-bytes", _S, "move_next_char", "        while o < end_offs and text[o] & 0xC0 == 0x80:", "        limit = min(end_offs, start_offs + 4)\n        while o < limit and text[o] & 0xC0 == 0x80:", twin=True),
    Mut("twin-prev-char-scan-four-bytes", _S, "move_prev_char", "        while o > start_offs and text[o] & 0xC0 == 0x80:", "        stop = max(start_offs, end_offs - 4)\n        while o > stop and text[o] & 0xC0 == 0x80:", twin=True),
    Mut("str-scan-stops-at-target-column", _S, "calc_string_text_pos", "        width = get_char_width(text[idx])\n", "        if cols >= pref_col:\n            return idx, cols\n        width = get_char_width(text[idx])\n", "SIB|str_util.calc_string_text_pos"),
    Mut("four-byte-form-unbounded", _S, "decode_one", "if 0x10000 <= (o := ((b1 & 0x07) << 18) | ((b2 & 0x3F) << 12) | ((b3 & 0x3F) << 6) | (b4 & 0x3F)) <= 0x10FFFF:", "if (o := ((b1 & 0x07) << 18) | ((b2 & 0x3F) << 12) | ((b3 & 0x3F) << 6) | (b4 & 0x3F)) >= 0x10000:", "RANGE|str_util.decode_one"),
    Mut("twin-four-byte-bound-strict", _S, "decode_one", "<= 0x10FFFF:", "< 0x110000:", twin=True),
    Mut("trim-rescan-from-moved-origin", _U, "calc_trim_text", "spos, sc = str_util.calc_text_pos(text, start_offs, end_offs, start_col + 1)", "spos, sc = str_util.calc_text_pos(text, spos, end_offs, start_col + 1)", "PAIR|util.calc_trim_text"),
    Mut("trim-steps-one-character", _U, "calc_trim_text", "spos, sc = str_util.calc_text_pos(text, start_offs, end_offs, start_col + 1)", "spos = str_util.move_next_char(text, spos, end_offs)", "PAIR|util.calc_trim_text"),
    Mut("dbe-lead-81-excluded", _S, "within_double_byte", "if text[pos - 1] >= 0x81 and", "if text[pos - 1] > 0x81 and", "TAB|str_util.within_double_byte"),
    Mut("dbe-trail-7f-included", _S, "within_double_byte", "if 0x40 <= v < 0x7F:", "if 0x40 <= v <= 0x7F:", "TAB|str_util.within_double_byte"),
    Mut("twin-dbe-lead-gt-80", _S, "within_double_byte", "if text[pos - 1] >= 0x81 and", "if text[pos - 1] > 0x80 and", twin=True),
    Mut("get-width-ascii-fast-path", _S, "get_width", "    return get_char_width(chr(o))", "    if o < 0x80:\n        return 1\n    return get_char_width(chr(o))", "SIB|str_util.get_width"),
    Mut("is-wide-char-loses-wide-mode", _S, "is_wide_char", "    if _byte_encoding == \"wide\":\n        return within_double_byte(text, offs, offs) == 1\n", "", "COVER|str_util.is_wide_char"),
    Mut("calc-width-mode-typo", _S, "calc_width", "    if _byte_encoding == \"utf8\":", "    if _byte_encoding == \"utf-8\":", "COVER|str_util.calc_width"),
    Mut("set-encoding-wide-keeps-dec-flag", _U, "set_encoding", "        str_util.set_byte_encoding(\"wide\")\n\n        _use_dec_special = True", "        str_util.set_byte_encoding(\"wide\")", "PASS|util.set_encoding"),
    Mut("vterm-spelling-compare", "urwid/vterm.py", "TermCanvas.addbyte", "util.get_encoding_mode() == \"utf8\"", "util.get_encoding() == \"utf8\"", "TAB|vterm.TermCanvas.addbyte"),
    Mut("move-prev-char-dead-test", _S, "move_prev_char", "within_double_byte(text, start_offs, end_offs - 1) == 2", "within_double_byte(text, end_offs - 1, end_offs - 1) == 2", "DEADCMP|str_util.move_prev_char"),
    Mut("move-next-char-no-progress", _S, "move_next_char", "        while o < end_offs and text[o] & 0xC0 == 0x80:\n            o += 1", "        while o < end_offs and text[o] & 0xC0 == 0x80:\n            pass", "PROG|"),
    Mut("twin-get-width-local", _S, "get_width", "    return get_char_width(chr(o))", "    return get_char_width(chr(o))  # table lookup", twin=True),
    Mut("twin-set-encoding-hoisted", _U, "set_encoding", "    else:\n        str_util.set_byte_encoding(\"narrow\")\n        _use_dec_special = True", "    else:\n        _use_dec_special = True\n        str_util.set_byte_encoding(\"narrow\")", twin=True),
]
