"""C16 - focus-tracking lists behave as lists whose focus follows its item."""

from __future__ import annotations

import ast

from ..core import Ctx, RuleResult, finding, short, walk_no_nested
from ..model import AnalysisError, norm
from ..mutants import Mut
from ..rules.defuse import DefUse
from ..rules.exc import ExcEngine
from ..rules.util import callee_name, cfg_of, node_exprs, nodes_where
from ..tables import C16_FOCUS_EXEMPT, C16_ORDER_AFTER

EXPLANATION = (
    "Decided (necessary structural conditions of C16): (1) COVER: every in-place mutator of the built-in list (enumerated from the analysing interpreter: the attributes list has and "
    "tuple has not, minus the non-mutating ones) is overridden in MonitoredList under the _call_modified wrapper, and every one that can remove or move the focused item is overridden in "
    "MonitoredFocusList with a focus update; (2) ORDER: in each MonitoredFocusList override the new focus is computed first, exactly one super().<same mutator>(<same arguments>) call "
    "follows on every path, and only then `self.focus = ...` is stored - nothing is stored into the focus before the list call, so a failing call leaves list and focus unchanged; "
    "(3) single fire: each override calls exactly one _call_modified-wrapped method (the super call) on every path, and inside the wrapper _modified() follows the wrapped call outside any "
    "try/finally (never for a failed call); (4) focus setter: the store is dominated by the int test raising TypeError and the range test raising IndexError, _focus_changed is called under "
    "`index != self._focus` before the store, and the empty list forces _focus = 0; (5) slice-triple coherence: every range built from a slice's (start, stop, step) is bounded by its stop; (6b) the normalisation block computes the new triple from the old one (no component read after being overwritten); (7) single indices are converted with slice(i, i + 1 or None), "
    "the form that is correct for i == -1; (6) normalisation: arithmetic that assumes an ascending, well-ordered "
    "range (min(x, stop), stop - start, x < stop) is reachable only after negative steps and reversed bounds were normalised."
    ' Round 4: (9) _focus is written only by __init__ and the focus setter, the one place that fires the focus-changed callback.'
    ' Round-4 triage: (10) extend / slice assignment materialise their iterable, sort() re-finds the focus by identity, the empty list is handled before the stored index is shifted; (11) index / count parameters are coerced with operator.index() before the override computes with them, the constructor focus goes through the validating setter, clear() reports the removal of the whole list. Round 5: (12) the focus moves to `stop` exactly under start + len(new_items) <= focus < stop.'
    " Round 8: (13) KIND: the index an override hands to super() is the caller's own (or operator.index of it), not the slice built for the focus arithmetic."
    ' Round-8 triage: (14) KIND: MonitoredList.extend / += hand list(iterable) to the built-in (fix d9ee2f7); (15) PASS: sort() re-locates the focus on the exception edge of the list call (fix a893120).'
)
NOT_DECIDED = "The index arithmetic of _adjust_focus_on_contents_modified (which position the focus ends up at), equality with a built-in list for all operation sequences, error parity for every bad index."
ASSUMPTIONS = ["The list of mutators is derived from the `list` type of the analysing interpreter (CPython 3.12)."]

ML = "urwid.widget.monitored_list"
NON_MUTATING = {"__reversed__", "copy"}


def list_mutators():
    return sorted((set(dir(list)) - set(dir(tuple))) - NON_MUTATING)


def _is_wrapped(fi) -> bool:
    return any(isinstance(d, ast.Name) and d.id == "_call_modified" for d in fi.decorators)


def _super_calls(fi):
    return [c for c in fi.own_nodes() if isinstance(c, ast.Call) and isinstance(c.func, ast.Attribute) and isinstance(c.func.value, ast.Call) and isinstance(c.func.value.func, ast.Name) and c.func.value.func.id == "super"]


def rule_cover(ctx: Ctx) -> RuleResult:
    p = ctx.p
    rr = RuleResult("COVER", "C16.1", "every in-place list mutator is wrapped by _call_modified in MonitoredList and (unless it cannot move the focus) overridden with a focus update in MonitoredFocusList", floor=12)
    muts = list_mutators()
    ml = p.cls(f"{ML}.MonitoredList")
    mfl = p.cls(f"{ML}.MonitoredFocusList")
    for name in muts:
        fi = ml.methods.get(name)
        rr.inst(f"MonitoredList.{name}", True, {"mutator": name, "wrapped": bool(fi and _is_wrapped(fi)), "focus_override": name in mfl.methods} if len(rr.samples) < 12 else None)
        if fi is None:
            rr.add(finding("COVER", f"widget.monitored_list.MonitoredList", None, f"list.{name} mutates the list in place but MonitoredList does not override it: the modified callback never fires for it", construct=f"mutator {name} not overridden", file=ml.relpath))
            continue
        if not _is_wrapped(fi):
            rr.add(finding("COVER", fi, fi.node, f"MonitoredList.{name} is not wrapped by @_call_modified: the modified callback does not fire", construct=f"mutator {name} not wrapped"))
        sup = _super_calls(fi)
        if not any(c.func.attr == name for c in sup):
            rr.add(finding("COVER", fi, fi.node, f"MonitoredList.{name} does not delegate to list.{name}", construct=f"mutator {name} does not delegate"))
        if name in C16_FOCUS_EXEMPT:
            rr.exceptions_used.append(f"{name} - {C16_FOCUS_EXEMPT[name]}")
            continue
        fo = mfl.methods.get(name)
        if fo is None:
            rr.add(finding("COVER", "widget.monitored_list.MonitoredFocusList", None, f"list.{name} can remove or move the focused item but MonitoredFocusList does not override it: the focus index is left pointing at a different item", construct=f"focus mutator {name} not overridden", file=mfl.relpath))
            continue
        stores = [n for n in fo.own_nodes() if isinstance(n, ast.Assign) and any(isinstance(t, ast.Attribute) and t.attr in ("focus", "_focus") and isinstance(t.value, ast.Name) and t.value.id == fo.self_name for t in n.targets)]
        delegates = [c for c in fo.own_nodes() if isinstance(c, ast.Call) and isinstance(c.func, ast.Attribute) and isinstance(c.func.value, ast.Name) and c.func.value.id == fo.self_name and c.func.attr in mfl.methods and c.func.attr in muts and c.func.attr != name]
        if not stores and not delegates:
            rr.add(finding("COVER", fo, fo.node, f"MonitoredFocusList.{name} never updates the focus", construct=f"focus mutator {name} without focus store"))
    return rr


def rule_order(ctx: Ctx) -> RuleResult:
    p = ctx.p
    rr = RuleResult("ORDER", "C16.2", "focus computed -> one super().<same mutator>(<same args>) on every path -> self.focus stored; no focus store before the list call", floor=11)
    mfl = p.cls(f"{ML}.MonitoredFocusList")
    ml = p.cls(f"{ML}.MonitoredList")
    wrapped = {n for n, f in ml.methods.items() if _is_wrapped(f)}
    for name in list_mutators():
        fo = mfl.methods.get(name)
        if fo is None:
            continue
        cfg = cfg_of(fo)
        sup = [c for c in _super_calls(fo) if c.func.attr == name]
        ident = f"MonitoredFocusList.{name}"
        rr.inst(ident, True, {"override": name, "super_calls": len(sup)} if len(rr.samples) < 5 else None)
        # an override may delegate the whole job to another override of this class (`__iadd__`: self.extend(items);
        # return self): exactly one such call on every path, passing the override's own argument, and no super call
        deleg = [c for c in fo.own_nodes() if isinstance(c, ast.Call) and isinstance(c.func, ast.Attribute) and isinstance(c.func.value, ast.Name) and c.func.value.id == fo.self_name and c.func.attr in mfl.methods and c.func.attr in list_mutators() and c.func.attr != name]
        if not sup and len(deleg) == 1:
            d = deleg[0]
            dn = nodes_where(cfg, lambda x: x is d)
            params = [a.arg for a in fo.node.args.args[1:]]
            if [ast.unparse(a) for a in d.args] != params or not cfg.must_pass(cfg.entry, dn, ends=[cfg.exit]):
                rr.add(finding("ORDER", fo, d, f"{name}() delegates to self.{d.func.attr}() but not with its own arguments on every path", construct=f"{name}: delegation incomplete"))
            continue
        # `if not self: return super().<name>(<own args>)` - the empty list has no focus to track and the call is handed
        # to the built-in as it is (which validates the arguments): an accepted second call, on a path of its own
        passthrough = []
        for r in fo.own_nodes():
            if isinstance(r, ast.Return) and r.value in sup and len(sup) > 1:
                rn = nodes_where(cfg, lambda x, r=r: x is r.value)
                tests = [t for t in cfg.nodes if t.kind == "test" and isinstance(t.ast, ast.UnaryOp) and isinstance(t.ast.op, ast.Not) and isinstance(t.ast.operand, ast.Name) and t.ast.operand.id == fo.self_name]
                if rn and any(all(n_ not in ExcEngine._reach_without_edge(cfg, t, "T") for n_ in rn) for t in tests):
                    passthrough.append(r.value)
        sup = [c for c in sup if c not in passthrough]
        if len(sup) != 1:
            rr.add(finding("ORDER", fo, fo.node, f"{len(sup)} calls to super().{name}() in the override (exactly one expected): the list is edited twice or not at all, and the modified callback fires a different number of times", construct=f"{name}: {len(sup)} super calls"))
            continue
        call = sup[0]
        # argument pass-through
        params = [a.arg for a in fo.node.args.args[1:]]
        args = [ast.unparse(a) for a in call.args] + [f"{k.arg}={ast.unparse(k.value)}" if k.arg else f"**{ast.unparse(k.value)}" for k in call.keywords]
        want_pos = params
        kw = fo.node.args.kwarg.arg if fo.node.args.kwarg else None
        kwonly = [a.arg for a in fo.node.args.kwonlyargs]
        want = want_pos + [f"{k}={k}" for k in kwonly] + ([f"**{kw}"] if kw else [])
        if args != want:
            rr.add(finding("ORDER", fo, call, f"super().{name}({', '.join(args)}) does not pass the override's own arguments ({', '.join(want)}) through: the list ends up different from what a built-in list would hold", construct=f"{name}: arguments not passed through"))
        cn = nodes_where(cfg, lambda x: x is call)
        for pt in passthrough:
            pargs = [ast.unparse(a) for a in pt.args] + [f"{k.arg}={ast.unparse(k.value)}" if k.arg else f"**{ast.unparse(k.value)}" for k in pt.keywords]
            if pargs != want:
                rr.add(finding("ORDER", fo, pt, f"the empty-list call super().{name}({', '.join(pargs)}) does not pass the override's own arguments ({', '.join(want)}) through", construct=f"{name}: arguments not passed through"))
        ptn = nodes_where(cfg, lambda x: any(x is pt for pt in passthrough))
        # every normal path passes the super call (except the table's early returns)
        if not cfg.must_pass(cfg.entry, cn + ptn, ends=[cfg.exit]):
            path = cfg.witness_path(cfg.entry, [cfg.exit], avoid=cn + ptn)
            rets = [n for n in (path or []) if n.kind == "return"]
            key = f"{name}:{norm(rets[0].stmt, 40) if rets else 'fallthrough'}"
            if key in C16_ORDER_AFTER:
                rr.exceptions_used.append(f"{key} - {C16_ORDER_AFTER[key]}")
            else:
                rr.add(finding("ORDER", fo, fo.node, f"a path through {name}() returns normally without calling super().{name}(): the operation silently does nothing", construct=f"{name}: path without list call"))
        # focus stores: all after the call
        stores = nodes_where(cfg, lambda x: isinstance(x, ast.Attribute) and isinstance(x.ctx, ast.Store) and x.attr in ("focus", "_focus") and isinstance(x.value, ast.Name) and x.value.id == fo.self_name)
        if not stores:
            continue
        for s in stores:
            if not cfg.dominated(s, cn):
                rr.add(finding("ORDER", fo, s.stmt, f"`{norm(s.stmt, 50)}` can run before super().{name}(): if the list call then fails the focus has already moved (list unchanged, focus changed)", construct=f"{name}: focus stored before the list call"))
        # the focus is stored on every path after a successful call
        after = cfg.reachable(cn, avoid=stores, labels=("n", "T", "F"))
        if cfg.exit in after:
            rr.add(finding("ORDER", fo, call, f"after super().{name}() a normal path reaches the end of the method without storing the focus", construct=f"{name}: focus not stored after the list call"))
        # the value stored is computed before the call for the adjust-based overrides
        if name not in C16_ORDER_AFTER.get("computed_after", ()):
            adj = nodes_where(cfg, lambda x: isinstance(x, ast.Call) and isinstance(x.func, ast.Attribute) and x.func.attr == "_adjust_focus_on_contents_modified")
            if not adj:
                rr.add(finding("ORDER", fo, fo.node, f"{name}() does not compute the new focus with _adjust_focus_on_contents_modified() before editing the list", construct=f"{name}: focus not computed from the pending edit"))
            elif not all(cfg.dominated(c_, adj) for c_ in cn):
                rr.add(finding("ORDER", fo, call, f"super().{name}() can run before the new focus was computed from the old contents", construct=f"{name}: list call before focus computation"))
        # exactly one wrapped method call on every path = the super call; no other self.<wrapped>() calls
        others = [c for c in fo.own_nodes() if isinstance(c, ast.Call) and isinstance(c.func, ast.Attribute) and c.func.attr in wrapped and c is not call and c not in passthrough and ((isinstance(c.func.value, ast.Name) and c.func.value.id == fo.self_name) or c in _super_calls(fo))]
        for o in others:
            rr.add(finding("ORDER", fo, o, f"`{norm(o, 50)}` is a second _call_modified-wrapped call inside {name}(): the modified callback fires more than once per call", construct=f"{name}: second wrapped call {norm(o, 40)}"))
    return rr


def rule_sort_failure_keeps_focus(ctx: Ctx) -> RuleResult:
    """'it keeps designating the same item while that item remains in the list': list.sort() that fails part-way (a
    comparison raises) leaves the items permuted, exactly as the built-in does.  The focus item is still in the list
    - at another index.  The re-location of the focus after super().sort() is therefore reached on the exception
    edge of that call as well (try / finally): every path from the call to the function's raising exit passes a
    store of self.focus.  Before fix a893120 the exception left the method before the focus was re-located: after a
    failed sort the focus index designated another item."""
    p = ctx.p
    rr = RuleResult("PASS", "C16.15", "MonitoredFocusList.sort re-locates the focus item on the exception edge of the list call too", floor=1)
    fo = p.cls(f"{ML}.MonitoredFocusList").methods.get("sort")
    if fo is None:
        raise AnalysisError("MonitoredFocusList.sort not found")
    cfg = cfg_of(fo)
    calls = [c for c in _super_calls(fo) if c.func.attr == "sort"]
    # the call that works on a non-empty list (the empty-list passthrough has no focus to keep)
    cn = [n for c in calls for n in nodes_where(cfg, lambda x, c=c: x is c) if n.kind != "return"]
    stores = nodes_where(cfg, lambda x: isinstance(x, ast.Attribute) and isinstance(x.ctx, ast.Store) and x.attr in ("focus", "_focus") and isinstance(x.value, ast.Name) and x.value.id == fo.self_name)
    if not cn or not stores:
        raise AnalysisError("MonitoredFocusList.sort: list call / focus store not found")
    ok = all(cfg.raise_exit not in cfg.reachable_from_edges([(n, "e")], avoid=stores) for n in cn)
    rr.inst("sort", True, {"list_call": norm(calls[0], 40), "focus_stores": len(stores), "store_on_exception_edge": ok})
    if not ok:
        rr.add(finding("PASS", fo, calls[0], "an exception from super().sort() leaves sort() without the focus being re-located: list.sort() that fails in a comparison has already moved items, the focus index stays and now designates another item although the focus item is still in the list", construct="sort: focus not re-located when the list call raises"))
    return rr


def rule_base_extend_materialises(ctx: Ctx) -> RuleResult:
    """'raise the same errors, leaving the list unchanged when they do' and 'the modified callback fires ... never for a
    failed call': list.extend() / += append item by item, so an iterable that raises half way leaves the items taken
    so far in the list - a failed call that changed the contents and (rightly) announced nothing.  The wrapped
    mutators of MonitoredList that consume an iterable therefore take all items first: what they hand to super() is
    list(<parameter>).  (MonitoredFocusList.extend does the same for its focus arithmetic, C16.10.)  Before fix
    d9ee2f7 a SimpleListWalker extended from a failing generator kept the extra item and the ListBox its old canvas."""
    p = ctx.p
    rr = RuleResult("KIND", "C16.14", "MonitoredList.extend / __iadd__ hand list(<iterable>) to the built-in: nothing is appended before the iterable was consumed", floor=2)
    ml = p.cls(f"{ML}.MonitoredList")
    for name in ("extend", "__iadd__"):
        fo = ml.methods.get(name)
        if fo is None:
            raise AnalysisError(f"MonitoredList.{name} not found")
        prm = fo.params[1]
        calls = [c for c in _super_calls(fo) if c.func.attr == name]
        if not calls:
            raise AnalysisError(f"MonitoredList.{name}: no super().{name}() call")
        for c in calls:
            a = c.args[0] if c.args else None
            ok = isinstance(a, ast.Call) and isinstance(a.func, ast.Name) and a.func.id in ("list", "tuple") and len(a.args) == 1 and isinstance(a.args[0], ast.Name) and a.args[0].id == prm
            rr.inst(f"MonitoredList.{name}", True, {"method": name, "handed_on": ast.unparse(a) if a is not None else None, "materialised": ok})
            if not ok:
                rr.add(finding("KIND", fo, c, f"`{norm(c, 50)}` lets the built-in consume the caller's iterable itself: items are appended one by one, an iterable that raises half way leaves them in the list, the call fails and no modified callback is sent - a list walker holds items its ListBox has never been told about", construct=f"MonitoredList.{name}: iterable not materialised before the list call"))
    return rr


def rule_index_passed_as_given(ctx: Ctx) -> RuleResult:
    """'raise the same errors': the built-in list range-checks an integer index (`del l[9]` -> IndexError) and never a
    slice.  The overrides build `slice(i, i + 1 or None)` from an integer index to compute the new focus; that slice
    is for the focus arithmetic only - what goes to super().<op>() is the caller's index itself (or its
    operator.index() coercion).  If the slice is passed on, an out-of-range integer deletes / assigns nothing,
    returns normally and fires the modified callback (seed C16-r8a).  Every definition of the index parameter that
    reaches the super() call is the parameter itself or operator.index(<parameter>)."""
    from ..rules.defuse import DefUse

    p = ctx.p
    rr = RuleResult("KIND", "C16.13", "the index an override hands to super() is the caller's own index (or its operator.index() coercion), not a slice built from it", floor=3)
    mfl = p.cls(f"{ML}.MonitoredFocusList")
    for name in ("__delitem__", "__setitem__", "pop", "insert"):
        fo = mfl.methods.get(name)
        if fo is None or len(fo.params) < 2:
            continue
        prm = fo.params[1]
        sup = [c for c in _super_calls(fo) if c.func.attr == name and c.args and isinstance(c.args[0], ast.Name) and c.args[0].id == prm]
        if not sup:
            continue
        du = DefUse(fo)
        for c in sup:
            cn = next((n for n in du.cfg.nodes for e in node_exprs(n) for x in ast.walk(e) if x is c), None)
            if cn is None:
                continue
            bad = []
            for val, how, dn in du.reaching(prm, cn):
                if val is None or not isinstance(val, ast.AST):
                    continue  # the parameter as given
                if isinstance(val, ast.Call) and ast.unparse(val.func) in ("operator.index", "index") and len(val.args) == 1 and isinstance(val.args[0], ast.Name) and val.args[0].id == prm:
                    continue
                bad.append(val)
            rr.inst(f"MonitoredFocusList.{name}", True, {"override": name, "index_parameter": prm, "redefinitions_reaching_super": [norm(b, 40) for b in bad]})
            for b in bad:
                rr.add(finding("KIND", fo, b, f"`{prm} = {norm(b, 50)}` reaches `{norm(c, 50)}`: the built-in is no longer given the caller's index but a value built from it - a slice is never range-checked, so an out-of-range integer index does nothing instead of raising IndexError, and the modified callback fires for a call that must fail", construct=f"{name}: index replaced before the list call"))
    return rr


def rule_wrapper(ctx: Ctx) -> RuleResult:
    p = ctx.p
    rr = RuleResult("PASS", "C16.3", "the _call_modified wrapper calls the wrapped function, then _modified(), outside any try/finally, and returns the wrapped result", floor=3)
    outer = p.func(f"{ML}._call_modified")
    inner = [f for f in p.functions.values() if f.parent is outer and not f.is_lambda]
    if len(inner) != 1:
        raise AnalysisError("_call_modified: wrapper function not found")
    w = inner[0]
    cfg = cfg_of(w)
    fn_param = outer.params[0]
    fn_calls = nodes_where(cfg, lambda x: isinstance(x, ast.Call) and isinstance(x.func, ast.Name) and x.func.id == fn_param)
    mod_calls = nodes_where(cfg, lambda x: isinstance(x, ast.Call) and isinstance(x.func, ast.Attribute) and x.func.attr == "_modified")
    rr.inst("wrapped call present", True, {"wrapped_calls": len(fn_calls), "modified_calls": len(mod_calls)})
    if len(fn_calls) != 1 or len(mod_calls) != 1:
        rr.add(finding("PASS", w, w.node, f"the wrapper makes {len(fn_calls)} call(s) to the wrapped function and {len(mod_calls)} to _modified() (one each expected)", construct="wrapper call counts"))
        return rr
    rr.inst("modified after wrapped call", True)
    if not cfg.dominated(mod_calls[0], fn_calls):
        rr.add(finding("PASS", w, mod_calls[0].stmt, "_modified() can run before (or without) the wrapped list operation", construct="_modified not dominated by the wrapped call"))
    # never for a failed one: _modified not reachable from the wrapped call's exceptional edge
    exc_reach = cfg.reachable_from_edges([(fn_calls[0], "e")])
    rr.inst("modified not on exceptional path", True)
    if mod_calls[0] in exc_reach or any(isinstance(n, ast.Try) for n in ast.walk(w.node)):
        rr.add(finding("PASS", w, mod_calls[0].stmt, "_modified() is reachable after the wrapped call raised (try/finally or handler): the callback fires for a failed operation", construct="_modified on exceptional path"))
    # every normal exit passes _modified
    if not cfg.must_pass(fn_calls[0], mod_calls, ends=[cfg.exit], labels=("n", "T", "F")):
        rr.add(finding("PASS", w, w.node, "a normal path leaves the wrapper after the wrapped call without calling _modified()", construct="_modified skipped on a normal path"))
    rets = [n for n in w.own_nodes() if isinstance(n, ast.Return)]
    du = DefUse(w)
    for r in rets:
        t = du.text(r.value, du.node_of(r)) if r.value is not None else "None"
        if not t.startswith(f"{fn_param}("):
            rr.add(finding("PASS", w, r, f"the wrapper returns `{t}` instead of the wrapped function's result: pop()/__iadd__ lose their value", construct="wrapper return value"))
    return rr


def rule_focus_setter(ctx: Ctx) -> RuleResult:
    p = ctx.p
    rr = RuleResult("GUARD", "C16.4", "focus setter: type and range tests dominate the store, _focus_changed fires under index != _focus before the store, the empty list forces _focus = 0", floor=5)
    mfl = p.cls(f"{ML}.MonitoredFocusList")
    st = mfl.props["focus"].setter
    gt = mfl.props["focus"].getter
    if st is None or gt is None:
        raise AnalysisError("MonitoredFocusList.focus property not found")
    cfg = cfg_of(st)
    idx = st.params[1]
    sn = st.self_name
    stores = [n for n in cfg.nodes if isinstance(n.ast, ast.Assign) and any(isinstance(t, ast.Attribute) and t.attr == "_focus" and isinstance(t.value, ast.Name) and t.value.id == sn for t in n.ast.targets)]
    empty_tests = [n for n in cfg.nodes if n.kind == "test" and ast.unparse(n.ast) in (f"not {sn}", f"len({sn}) == 0", f"not len({sn})")]
    rr.inst("empty-list branch", True, {"empty_tests": len(empty_tests), "stores": [norm(s.stmt, 40) for s in stores]})
    if not empty_tests:
        rr.add(finding("GUARD", st, st.node, "the focus setter has no empty-list branch", construct="no empty-list test"))
        return rr
    empty_side = cfg.reachable_from_edges([(empty_tests[0], "T")], avoid=[])
    other_side = cfg.reachable_from_edges([(empty_tests[0], "F")])
    zero = [s for s in stores if s in empty_side and s not in other_side and isinstance(s.ast.value, ast.Constant) and s.ast.value.value == 0]
    # every path through the empty branch stores 0
    if not zero or not cfg.must_pass(empty_tests[0], zero + list(other_side - empty_side), ends=[cfg.exit]):
        rr.add(finding("GUARD", st, empty_tests[0].stmt, "assigning the focus of an empty list does not reset _focus to 0: a stale index survives emptying; when the list is filled again the focus setter compares the new index 0 with that stale value, so whether the focus-changed callback fires depends on the list's history", construct="empty list does not force _focus = 0"))
    main = [s for s in stores if s in other_side and ast.unparse(s.ast.value) == idx]
    rr.inst("main store", True)
    if len(main) != 1:
        rr.add(finding("GUARD", st, st.node, f"expected exactly one `self._focus = {idx}` store on the non-empty path, found {len(main)}", construct="main focus store count"))
        return rr
    ms = main[0]
    other_stores = [s for s in stores if s is not ms and s not in zero]
    for s in other_stores:
        rr.add(finding("GUARD", st, s.stmt, f"`{norm(s.stmt, 50)}` stores the focus without the type/range validation", construct=f"unvalidated focus store {norm(s.stmt, 40)}"))

    def raising_test(exc_name, pred):
        for n in cfg.nodes:
            if n.kind != "test" or not pred(n.ast):
                continue
            for lab in ("T", "F"):
                r = cfg.reachable_from_edges([(n, lab)], avoid=[])
                first = [x for x, l2 in n.succ if l2 == lab]
                if first and first[0].kind == "raisestmt" and exc_name in ast.unparse(first[0].ast):
                    return n, lab
        return None

    t1 = raising_test("TypeError", lambda a: "isinstance" in ast.unparse(a) and idx in ast.unparse(a) and "int" in ast.unparse(a))
    t2 = raising_test("IndexError", lambda a: all(isinstance(c, ast.Compare) or isinstance(a, ast.BoolOp) for c in [a]) and idx in ast.unparse(a) and "len(" in ast.unparse(a) and ("< 0" in ast.unparse(a) or "0 <=" in ast.unparse(a) or "0 >" in ast.unparse(a)))
    for nm, t in (("TypeError for a non-integer index", t1), ("IndexError for an out-of-range index", t2)):
        rr.inst(nm, True)
        if t is None:
            rr.add(finding("GUARD", st, st.node, f"the focus setter no longer raises {nm}", construct=f"missing {nm.split()[0]} test"))
            continue
        tn, lab = t
        if ms not in ExcEngine._reach_without_edge(cfg, tn, lab) or not cfg.dominated(ms, [tn]):
            if not cfg.dominated(ms, [tn]):
                rr.add(finding("GUARD", st, ms.stmt, f"the focus store is not dominated by the test raising {nm}", construct=f"store not dominated by {nm.split()[0]} test"))
    if t2 is not None:
        a = t2[0].ast
        txt = ast.unparse(a)
        ok = (f"{idx} < 0" in txt or f"0 > {idx}" in txt) and (f"{idx} >= len({sn})" in txt or f"len({sn}) <= {idx}" in txt) and isinstance(a, ast.BoolOp) and isinstance(a.op, ast.Or)
        alt = isinstance(a, ast.UnaryOp) and isinstance(a.op, ast.Not) and f"0 <= {idx} < len({sn})" in txt
        rr.inst("range test bounds", True, {"test": txt})
        if not (ok or alt):
            rr.add(finding("GUARD", st, t2[0].stmt, f"the range test `{txt}` is not `{idx} < 0 or {idx} >= len({sn})`: an index outside 0..len-1 can be stored", construct=f"range test {txt}"))
    # _focus_changed under index != self._focus, before the store
    fc = nodes_where(cfg, lambda x: isinstance(x, ast.Call) and isinstance(x.func, ast.Attribute) and x.func.attr == "_focus_changed")
    rr.inst("_focus_changed guarded", True)
    if len(fc) != 1:
        rr.add(finding("GUARD", st, st.node, f"{len(fc)} calls to _focus_changed in the setter (one expected)", construct="_focus_changed call count"))
    else:
        tests = [n for n in cfg.nodes if n.kind == "test" and ast.unparse(n.ast) in (f"{idx} != {sn}._focus", f"{sn}._focus != {idx}")]
        ok = any(fc[0] in cfg.reachable_from_edges([(t, "T")]) and fc[0] not in ExcEngine._reach_without_edge(cfg, t, "T") for t in tests)
        if not ok:
            rr.add(finding("GUARD", st, fc[0].stmt, "_focus_changed() is not called exactly under `index != self._focus`: the callback fires when the focus did not change, or not when it did", construct="_focus_changed not guarded by index != _focus"))
        if ms in cfg.reachable([cfg.entry], avoid=fc, include_start=True) and ok:
            pass
        if fc[0] in cfg.reachable([ms]):
            rr.add(finding("GUARD", st, fc[0].stmt, "_focus_changed() runs after the focus was already stored", construct="_focus_changed after the store"))
        a = fc[0]
        call = [x for x in walk_no_nested(a.ast) if isinstance(x, ast.Call) and isinstance(x.func, ast.Attribute) and x.func.attr == "_focus_changed"][0]
        if not (call.args and ast.unparse(call.args[0]) == idx):
            rr.add(finding("GUARD", st, a.stmt, "_focus_changed() is not passed the new focus index", construct="_focus_changed argument"))
    # getter: None exactly when empty
    gcfg = cfg_of(gt)
    rets = [n for n in gt.own_nodes() if isinstance(n, ast.Return)]
    rr.inst("getter", True)
    none_rets = [r for r in rets if r.value is None or (isinstance(r.value, ast.Constant) and r.value.value is None)]
    gtests = [n for n in gcfg.nodes if n.kind == "test" and ast.unparse(n.ast) in (f"not {gt.self_name}", f"len({gt.self_name}) == 0")]
    if not none_rets or not gtests:
        rr.add(finding("GUARD", gt, gt.node, "the focus getter does not return None for the empty list", construct="getter: no None for empty"))
    return rr


def rule_slice_triple(ctx: Ctx) -> RuleResult:
    p = ctx.p
    rr = RuleResult("BOUND", "C16.5", "every range built from a slice's (start, stop, step) is bounded by that stop", floor=2)
    fi = p.func(f"{ML}.MonitoredFocusList._adjust_focus_on_contents_modified")
    du = DefUse(fi)
    # names unpacked from slc.indices(...)
    trip = None
    for n in fi.own_nodes():
        if isinstance(n, ast.Assign) and isinstance(n.value, ast.Call) and isinstance(n.value.func, ast.Attribute) and n.value.func.attr == "indices":
            for t in n.targets:
                if isinstance(t, ast.Tuple) and len(t.elts) == 3 and all(isinstance(e, ast.Name) for e in t.elts):
                    trip = [e.id for e in t.elts]
    if trip is None:
        raise AnalysisError("_adjust_focus_on_contents_modified: `start, stop, step = slc.indices(len(self))` not found")
    start, stop, step = trip
    for c in fi.own_nodes():
        if not (isinstance(c, ast.Call) and isinstance(c.func, ast.Name) and c.func.id == "range"):
            continue
        if len(c.args) == 1 and isinstance(c.args[0], ast.Starred):
            rr.inst(f"range:{norm(c, 50)}", True, {"range": norm(c, 60), "bounded": True})
            continue
        if len(c.args) != 3:
            continue
        a0, a1, a2 = (ast.unparse(x) for x in c.args)
        if a0 != start or a2 != step:
            continue
        e = c.args[1]
        ok = a1 == stop or (isinstance(e, ast.Call) and isinstance(e.func, ast.Name) and e.func.id == "min" and any(ast.unparse(x) == stop for x in e.args))
        rr.inst(f"range:{norm(c, 50)}", True, {"range": norm(c, 60), "bounded": ok})
        if not ok:
            rr.add(finding("BOUND", fi, c, f"`{norm(c, 60)}` walks the slice's positions from `{start}` in steps of `{step}` but is not bounded by `{stop}`: positions beyond the slice, which are not removed, are counted as removed and the focus drifts", construct=f"range over slice not bounded by stop: {norm(c, 60)}"))
    return rr


def rule_slice_norm(ctx: Ctx) -> RuleResult:
    """slice.indices() yields descending triples for negative steps and stop < start for empty
    reversed-bounds slices.  Arithmetic that assumes an ascending, well-ordered range
    (min(x, stop), stop - start, x < stop ...) must only be reached after both were normalised."""
    p = ctx.p
    rr = RuleResult("NORM", "C16.6", "order-sensitive arithmetic on a slice's (start, stop, step) is reached only after negative steps and reversed bounds were normalised", floor=4)
    fi = p.func(f"{ML}.MonitoredFocusList._adjust_focus_on_contents_modified")
    cfg = cfg_of(fi)
    unpack = None
    for n in cfg.nodes:
        a = n.ast
        if isinstance(a, ast.Assign) and isinstance(a.value, ast.Call) and isinstance(a.value.func, ast.Attribute) and a.value.func.attr == "indices":
            for t in a.targets:
                if isinstance(t, ast.Tuple) and len(t.elts) == 3 and all(isinstance(e, ast.Name) for e in t.elts):
                    unpack = (n, [e.id for e in t.elts])
    if unpack is None:
        raise AnalysisError("_adjust_focus_on_contents_modified: slice triple unpacking not found")
    un, (start, stop, step) = unpack

    def names(e):
        return {x.id for x in ast.walk(e) if isinstance(x, ast.Name)}

    def order_sensitive(e):
        out = []
        for x in ast.walk(e):
            if isinstance(x, ast.Call) and isinstance(x.func, ast.Name) and x.func.id in ("min", "max") and any(isinstance(a, ast.Name) and a.id in (start, stop) for a in x.args):
                # the normalising clamp itself is not a use
                out.append(x)
            elif isinstance(x, ast.BinOp) and isinstance(x.op, ast.Sub) and isinstance(x.left, ast.Name) and isinstance(x.right, ast.Name) and {x.left.id, x.right.id} == {start, stop}:
                out.append(x)
            elif isinstance(x, ast.Compare) and any(isinstance(o, (ast.Lt, ast.LtE, ast.Gt, ast.GtE)) for o in x.ops) and any(isinstance(c, ast.Name) and c.id in (start, stop) for c in [x.left, *x.comparators]) and step not in names(x):
                if not ({start, stop} >= {c.id for c in [x.left, *x.comparators] if isinstance(c, ast.Name)} and len(x.ops) == 1 and all(isinstance(c, ast.Name) for c in [x.left, *x.comparators])):
                    out.append(x)
        return out

    def is_step_norm(n):
        a = n.ast
        if not isinstance(a, ast.Assign):
            return False
        for t in a.targets:
            if isinstance(t, ast.Name) and t.id == step:
                return True
            if isinstance(t, ast.Tuple) and isinstance(a.value, ast.Tuple) and len(t.elts) == len(a.value.elts):
                for te, ve in zip(t.elts, a.value.elts):
                    if isinstance(te, ast.Name) and te.id == step and (isinstance(ve, ast.UnaryOp) and isinstance(ve.op, ast.USub) or isinstance(ve, ast.Call) and callee_name(ve) == "abs" or isinstance(ve, ast.Constant)):
                        return True
        return False

    def is_bound_norm(n):
        a = n.ast
        if isinstance(a, ast.Assign) and len(a.targets) == 1 and isinstance(a.targets[0], ast.Name) and a.targets[0].id in (start, stop) and isinstance(a.value, ast.Call) and callee_name(a.value) in ("max", "min"):
            return {start, stop} <= names(a.value)
        return False

    def walk(kind):
        """nodes reachable from the unpacking on paths where the hazard is still possible"""
        seen = set()
        work = [un]
        while work:
            n = work.pop()
            for t, lab in n.succ:
                if t in seen:
                    continue
                if n.kind == "test" and isinstance(n.ast, ast.Compare) and len(n.ast.ops) == 1 and lab in ("T", "F"):
                    l, op, r = n.ast.left, n.ast.ops[0], n.ast.comparators[0]
                    if kind == "sign" and isinstance(l, ast.Name) and l.id == step and isinstance(r, ast.Constant):
                        neg_possible = {"T": None, "F": None}
                        k = r.value
                        # is step < 0 still possible on edge lab?
                        if isinstance(op, ast.Lt) and k == 0:
                            poss = lab == "T"
                        elif isinstance(op, (ast.Gt,)) and k == 0 or isinstance(op, ast.GtE) and k in (0, 1) or isinstance(op, ast.Eq) and isinstance(k, int) and k > 0:
                            poss = lab == "F"
                        else:
                            poss = True
                        if not poss:
                            continue
                    if kind == "bound" and {getattr(l, "id", None), getattr(r, "id", None)} == {start, stop}:
                        lt = isinstance(op, (ast.Lt, ast.LtE))
                        first = l.id
                        # reversed bounds (stop < start) possible on this edge?
                        if isinstance(op, (ast.Lt, ast.Gt)):
                            rev_true = (first == stop and isinstance(op, ast.Lt)) or (first == start and isinstance(op, ast.Gt))
                            poss = (lab == "T") == rev_true
                        else:
                            ok_true = (first == start and isinstance(op, ast.LtE)) or (first == stop and isinstance(op, ast.GtE))
                            poss = (lab == "F") == ok_true
                        if not poss:
                            continue
                if (kind == "sign" and is_step_norm(t)) or (kind == "bound" and is_bound_norm(t)):
                    seen.add(t)
                    continue  # hazard removed beyond this node
                seen.add(t)
                work.append(t)
        return seen

    haz_sign = walk("sign")
    haz_bound = walk("bound")
    from ..rules.util import node_exprs

    n_uses = 0
    for n in cfg.nodes:
        if is_bound_norm(n) or is_step_norm(n):
            continue
        for r in node_exprs(n):
            for u in order_sensitive(r):
                n_uses += 1
                rr.inst(f"use:{norm(u, 50)}", True, {"use": norm(u, 60), "negative_step_possible": n in haz_sign, "reversed_bounds_possible": n in haz_bound} if len(rr.samples) < 6 else None)
                if n in haz_sign:
                    rr.add(finding("NORM", fi, u, f"`{norm(u, 60)}` assumes an ascending range but is reachable with a negative `{step}` (slice.indices() returns descending triples for negative steps): the computed focus is wrong or out of range, and the focus setter raises after the list was already edited", construct=f"negative step reaches {norm(u, 60)}"))
                if n in haz_bound and not (isinstance(u, ast.Call)):
                    rr.add(finding("NORM", fi, u, f"`{norm(u, 60)}` assumes `{start} <= {stop}` but is reachable for an empty reversed-bounds slice ({stop} < {start}): the focus moves although nothing was removed", construct=f"reversed bounds reach {norm(u, 60)}"))
    if not n_uses:
        raise AnalysisError("_adjust_focus_on_contents_modified: no order-sensitive use of the slice triple found")
    return rr


def rule_index_slice_idiom(ctx: Ctx) -> RuleResult:
    """A single index i is handed to the focus arithmetic as slice(i, i + 1 or None): for i == -1 the plain
    slice(i, i + 1) is slice(-1, 0), i.e. empty, and the focus is not adjusted although an item is removed."""
    p = ctx.p
    rr = RuleResult("SIB", "C16.7", "single indices are converted with slice(i, i + 1 or None) in every MonitoredFocusList override", floor=4)
    mfl = p.cls(f"{ML}.MonitoredFocusList")
    for fi in p.all_class_functions(mfl):
        for c in fi.own_nodes():
            if isinstance(c, ast.Call) and isinstance(c.func, ast.Name) and c.func.id == "slice" and len(c.args) == 2 and isinstance(c.args[0], ast.Name):
                i = c.args[0].id
                b = c.args[1]
                plus1 = lambda e: isinstance(e, ast.BinOp) and isinstance(e.op, ast.Add) and ast.unparse(e.left) == i and isinstance(e.right, ast.Constant) and e.right.value == 1  # noqa: E731
                if not (plus1(b) or (isinstance(b, ast.BoolOp) and any(plus1(v) for v in b.values))):
                    continue
                ok = isinstance(b, ast.BoolOp) and isinstance(b.op, ast.Or) and len(b.values) == 2 and plus1(b.values[0]) and isinstance(b.values[1], ast.Constant) and b.values[1].value is None
                rr.inst(f"{short(fi)}:{norm(c, 50)}", True, {"function": short(fi), "conversion": norm(c, 50)} if len(rr.samples) < 6 else None)
                if not ok:
                    rr.add(finding("SIB", fi, c, f"`{norm(c, 50)}` converts the index `{i}` without the `or None`: for {i} == -1 the slice is (-1, 0), which covers nothing, so deleting / replacing the last item by index -1 leaves the focus unadjusted (out of range after the deletion)", construct=f"index slice without `or None`: {norm(c, 50)}"))
    return rr


def rule_norm_simultaneous(ctx: Ctx) -> RuleResult:
    p = ctx.p
    rr = RuleResult("ORDER", "C16.6b", "the normalisation of a negative step computes all three components from the old triple (no component is read after it was overwritten)", floor=1)
    fi = p.func(f"{ML}.MonitoredFocusList._adjust_focus_on_contents_modified")
    trip = None
    for n in fi.own_nodes():
        if isinstance(n, ast.Assign) and isinstance(n.value, ast.Call) and isinstance(n.value.func, ast.Attribute) and n.value.func.attr == "indices":
            for t in n.targets:
                if isinstance(t, ast.Tuple) and len(t.elts) == 3 and all(isinstance(e, ast.Name) for e in t.elts):
                    trip = [e.id for e in t.elts]
    if trip is None:
        raise AnalysisError("slice triple unpacking not found")
    step = trip[2]
    blocks = [n for n in ast.walk(fi.node) if isinstance(n, ast.If) and isinstance(n.test, ast.Compare) and ast.unparse(n.test.left) == step and isinstance(n.test.ops[0], ast.Lt)]
    if not blocks:
        # without a normalisation block there is nothing to order; C16.6 (NORM) reports the missing normalisation
        rr.floor = 0
        rr.notes.append("no `if step < 0:` block found - see C16.6")
        return rr
    for blk in blocks:
        written = set()
        rr.inst(f"block {norm(blk, 30)}", True, {"statements": [norm(st, 60) for st in blk.body]})
        for st in blk.body:
            reads = {x.id for x in ast.walk(st) if isinstance(x, ast.Name) and isinstance(x.ctx, ast.Load)}
            if isinstance(st, ast.AugAssign) and isinstance(st.target, ast.Name):
                reads.discard(st.target.id) if st.target.id not in written else None
            stale = sorted(reads & written & set(trip))
            if stale:
                rr.add(finding("ORDER", fi, st, f"`{norm(st, 60)}` reads {stale} after the normalisation block already overwrote it: the new bounds are computed from a half-normalised triple (the range covers the wrong positions)", construct=f"normalisation reads overwritten {stale}"))
            written |= {x.id for x in ast.walk(st) if isinstance(x, ast.Name) and isinstance(x.ctx, ast.Store)}
    return rr


def rule_focus_writers(ctx: Ctx) -> RuleResult:
    """The focus-changed callback is fired by the `focus` property setter and nowhere else; the stored index
    `_focus` therefore has exactly two writers: __init__ (before a callback can be registered) and that setter.
    Any other method that assigns `self._focus` moves the focus without notifying."""
    p = ctx.p
    rr = RuleResult("WRITER", "C16.9", "MonitoredFocusList._focus is written only by __init__ and the focus setter (the one place that fires the focus-changed callback)", floor=3)
    cls = p.cls("urwid.widget.monitored_list.MonitoredFocusList")
    setter = cls.props["focus"].setter if "focus" in cls.props else None
    if setter is None:
        raise AnalysisError("MonitoredFocusList.focus setter not found")
    allowed = {id(setter)}
    for fi in p.all_class_functions(cls):
        if fi.cls is not cls:
            continue
        for n in fi.own_nodes():
            if isinstance(n, (ast.Assign, ast.AugAssign)):
                for t in n.targets if isinstance(n, ast.Assign) else [n.target]:
                    if isinstance(t, ast.Attribute) and t.attr == "_focus" and isinstance(t.value, ast.Name) and t.value.id == fi.self_name:
                        rr.inst(f"{short(fi)}:{norm(n, 40)}", True, {"writer": short(fi), "store": norm(n, 50)})
                        if fi.name != "__init__" and id(fi) not in allowed:
                            rr.add(finding("WRITER", fi, n, f"`{norm(n, 50)}` in {fi.name}() stores the focus index directly instead of assigning `self.focus`: the focus-changed callback is not fired although the focus index changes", construct=f"_focus written by {fi.name}"))
    return rr


def rule_list_semantics(ctx: Ctx) -> RuleResult:
    """Three necessary conditions of 'behaves as a Python list whose focus follows its item':
    (a) a mutator that accepts 'any iterable' in list (extend, slice assignment) materialises its argument with
        list(...) before len() is taken of it (a one-pass iterator has no len());
    (b) sort() finds the focus item again by *identity* - index() compares by equality and lands on the first
        equal item;
    (c) _adjust_focus_on_contents_modified returns 0 for an empty list before it shifts the stored index: the
        index of an empty list is a placeholder, not an item that new items are inserted in front of."""
    from ..rules.defuse import DefUse

    p = ctx.p
    rr = RuleResult("KIND", "C16.10", "extend / slice assignment materialise their iterable and pass that copy on to list; sort() re-finds the focus by identity; an empty list's placeholder index is not shifted; every computed focus returned is clamped to the new length", floor=8)
    mfl = p.cls(f"{ML}.MonitoredFocusList")
    # (a)
    for name in ("extend", "__setitem__"):
        fo = mfl.methods[name]
        du = DefUse(fo)
        prm = fo.params[-1]
        adj = [c for c in fo.own_nodes() if isinstance(c, ast.Call) and isinstance(c.func, ast.Attribute) and c.func.attr == "_adjust_focus_on_contents_modified" and len(c.args) == 2 and isinstance(c.args[1], ast.Name)]

        def materialised(nm, at):
            defs = du.reaching(nm, at)
            return bool(defs) and all(isinstance(v, ast.Call) and isinstance(v.func, ast.Name) and v.func.id in ("list", "tuple") for v, how, dn in defs if how not in ("param", "parameter")) and not any(how in ("param", "parameter") for v, how, dn in defs)

        for c in adj:
            at = du.node_of(c)
            ok = materialised(c.args[1].id, at)
            rr.inst(f"{name}: iterable materialised", True, {"mutator": name, "materialised": ok})
            if not ok:
                rr.add(finding("KIND", fo, c, f"{name}() hands its argument `{c.args[1].id}` to _adjust_focus_on_contents_modified (which takes len() of it) as it came in: list accepts any iterable here, a generator or iterator raises TypeError", construct=f"{name}: iterable not materialised"))
        # ... and what goes into the list afterwards is that materialised copy, not the (possibly one-pass, now
        # exhausted) iterable the caller gave: on the branch where the copy was taken, super().<mutator>() gets it
        sup = [c for c in fo.own_nodes() if isinstance(c, ast.Call) and isinstance(c.func, ast.Attribute) and c.func.attr == name and isinstance(c.func.value, ast.Call) and isinstance(c.func.value.func, ast.Name) and c.func.value.func.id == "super" and c.args and isinstance(c.args[-1], ast.Name)]
        for c in sup:
            at = du.node_of(c)
            if at is None or not adj:
                continue
            # only super calls that follow a focus computation from a materialised copy
            before = [a for a in adj if du.node_of(a) is not None and at in du.cfg.reachable([du.node_of(a)])]
            if not before:
                continue
            # the copy the focus was computed from is the very variable handed on
            ok = all(a.args[1].id == c.args[-1].id for a in before)
            rr.inst(f"{name}: the list receives the materialised copy", True, {"mutator": name, "call": norm(c, 50), "materialised": ok})
            if not ok:
                rr.add(finding("KIND", fo, c, f"`{norm(c, 50)}` passes `{c.args[-1].id}` on to list after the focus was computed from a list(...) copy of the argument: a one-pass iterator (generator, map, iter()) was consumed by that copy, so the list receives nothing although the focus arithmetic and the modified callback assumed the new items", construct=f"{name}: list call gets the raw iterable"))
    # (b)
    so = mfl.methods["sort"]
    stores = [n for n in so.own_nodes() if isinstance(n, ast.Assign) and any(isinstance(t, ast.Attribute) and t.attr == "focus" for t in n.targets)]
    rr.inst("sort: focus by identity", True, {"stores": [norm(n, 70) for n in stores]})
    for n in stores:
        if any(isinstance(c, ast.Call) and isinstance(c.func, ast.Attribute) and c.func.attr == "index" for c in ast.walk(n.value)) or not any(isinstance(c, ast.Compare) and isinstance(c.ops[0], ast.Is) for c in ast.walk(n.value)):
            rr.add(finding("KIND", so, n, f"`{norm(n, 70)}` looks the focus item up by equality: with equal items (True and 1, 1 and 1.0, equal strings) the focus moves to the first equal item although the focused object is still in the list", construct="sort re-finds the focus by equality"))
    # (c)
    ad = mfl.methods["_adjust_focus_on_contents_modified"]
    cfg = cfg_of(ad)
    empties = [t for t in cfg.nodes if t.kind == "test" and ast.unparse(t.ast) in (f"not {ad.self_name}", f"len({ad.self_name}) == 0")]
    reads = [n for n in cfg.nodes if isinstance(n.ast, ast.Assign) and isinstance(n.ast.value, ast.Attribute) and n.ast.value.attr == "_focus"]
    rr.inst("empty list handled before the stored index is read", True, {"empty_tests": len(empties), "reads": len(reads)})
    ok = bool(empties) and all(any(r_ not in cfg.reachable_from_edges([(t, "T")]) and cfg.dominated(r_, [t]) for t in empties) for r_ in reads)
    if not ok:
        rr.add(finding("GUARD", ad, ad.node, "_adjust_focus_on_contents_modified shifts the stored index also when the list is empty: that index (0) is a placeholder, so filling an empty list with extend() or slice assignment leaves the focus on the *last* new item while += gives the first", construct="empty list not handled before shifting the stored index"))
    # (d) every computed index the function returns is clamped to the last item of the list *after* the change:
    # min(<index>, len(self) + added - removed - 1) - at the return or at every definition reaching it.  The validate
    # callback's answer and the constant 0 of the empty list are returned as they are.
    dua = DefUse(ad)

    def clamped(e, at, depth=0):
        if isinstance(e, ast.Constant):
            return True
        if isinstance(e, ast.Call) and isinstance(e.func, ast.Name) and e.func.id == "min" and any("len(" in ast.unparse(a) for a in e.args):
            return True
        if isinstance(e, ast.Call) and isinstance(e.func, ast.Attribute) and e.func.attr == "_validate_contents_modified":
            return True
        if isinstance(e, ast.Name) and depth < 4 and at is not None:
            defs = dua.reaching(e.id, at)
            return bool(defs) and all(isinstance(v, ast.AST) and how == "assign" and clamped(v, dn, depth + 1) for v, how, dn in defs)
        return False

    for r_ in [n for n in dua.cfg.nodes if n.kind == "return" and n.ast.value is not None]:
        okc = clamped(r_.ast.value, r_)
        rr.inst(f"return clamped: {norm(r_.ast, 50)}", True, {"return": norm(r_.ast, 70), "clamped_to_the_new_length": okc})
        if not okc:
            rr.add(finding("BOUND", ad, r_.ast, f"`{norm(r_.ast, 60)}` returns a computed focus index that is not clamped with min(.., len(self) + added - removed - 1) on every way to it: when the focused item is the last one and an extended slice (del ml[::2], del ml[-1::2]) removes it, the index points behind the shortened list - the focus setter raises IndexError after the list was already changed", construct="computed focus returned unclamped"))
    return rr


def rule_index_coercion(ctx: Ctx) -> RuleResult:
    """list takes any object with __index__ as index / repeat count.  An override that does arithmetic or a
    comparison on such a parameter itself (y + 1, n > 0) must first turn it into an int with operator.index()
    - or be on the isinstance(.., slice) branch; otherwise it raises TypeError where list succeeds.
    Also: (b) the constructor's focus= goes through the validating `focus` setter (the stored `_focus` is only ever
    initialised with a constant); (c) clear() describes itself to the focus arithmetic / validate callback as the
    removal of the whole list, with the same slice the all-removing branch of __imul__ uses."""
    from ..rules.defuse import DefUse

    p = ctx.p
    rr = RuleResult("KIND", "C16.11", "index / count parameters are coerced with operator.index() before arithmetic; the constructor focus is validated by the setter; clear() reports slice(0, len(self))", floor=6)
    mfl = p.cls(f"{ML}.MonitoredFocusList")
    for name, fo in sorted(mfl.methods.items()):
        sup = [c for c in fo.own_nodes() if isinstance(c, ast.Call) and isinstance(c.func, ast.Attribute) and c.func.attr == name and isinstance(c.func.value, ast.Call) and isinstance(c.func.value.func, ast.Name) and c.func.value.func.id == "super"]
        if not sup or not sup[0].args or not isinstance(sup[0].args[0], ast.Name):
            continue
        prm = sup[0].args[0].id
        if prm not in fo.params or name in ("append", "extend", "remove", "__iadd__"):
            continue
        du = DefUse(fo)
        cfg = du.cfg
        ops = [n for n in fo.own_nodes() if (isinstance(n, ast.BinOp) and any(isinstance(x, ast.Name) and x.id == prm for x in (n.left, n.right))) or (isinstance(n, ast.Compare) and any(isinstance(x, ast.Name) and x.id == prm for x in (n.left, *n.comparators)))]
        for o in ops:
            at = du.node_of(o)
            if at is None:
                continue
            defs = du.reaching(prm, at)
            raw = [d for d in defs if d[1] == "param"]
            coerced = all(isinstance(v, ast.Call) and ast.unparse(v.func) in ("operator.index", "index", "int") for v, how, dn in defs if how != "param")
            on_slice_branch = any(t.kind == "test" and isinstance(t.ast, ast.Call) and ast.unparse(t.ast.func) == "isinstance" and at not in ExcEngine._reach_without_edge(cfg, t, "T") for t in cfg.nodes)
            ok = (not raw and coerced) or on_slice_branch
            rr.inst(f"{name}: {norm(o, 30)}", True, {"method": name, "parameter": prm, "operation": norm(o, 40), "coerced": ok} if len(rr.samples) < 8 else None)
            if not ok:
                rr.add(finding("KIND", fo, o, f"`{norm(o, 40)}` computes with the raw `{prm}` parameter of {name}(): list accepts any object with __index__ here, this override raises TypeError for it", construct=f"{name}: {prm} used in arithmetic without operator.index()"))
    # (b)
    init = mfl.methods["__init__"]
    fparam = "focus"
    stores = [n for n in init.own_nodes() if isinstance(n, ast.Assign) and any(isinstance(t, ast.Attribute) and t.attr == "_focus" for t in n.targets)]
    via_setter = [n for n in init.own_nodes() if isinstance(n, ast.Assign) and any(isinstance(t, ast.Attribute) and t.attr == "focus" and isinstance(t.value, ast.Name) and t.value.id == init.self_name for t in n.targets) and isinstance(n.value, ast.Name) and n.value.id == fparam]
    rr.inst("__init__: focus validated", True, {"raw_stores": [norm(n, 40) for n in stores], "through_setter": [norm(n, 40) for n in via_setter]})
    if fparam in init.all_params:
        for n in stores:
            if not isinstance(n.value, ast.Constant):
                rr.add(finding("KIND", init, n, f"`{norm(n, 40)}` stores the constructor's focus= argument unchecked: MonitoredFocusList([1, 2, 3], focus=5) reports a focus index outside the list", construct="constructor focus stored without validation"))
        if not via_setter:
            rr.add(finding("KIND", init, init.node, "the constructor never assigns its focus= argument through the validating `focus` setter", construct="constructor focus not applied through the setter"))
    # (c)
    def removal_slices(fo):
        return [c.args[0] for c in fo.own_nodes() if isinstance(c, ast.Call) and isinstance(c.func, ast.Attribute) and c.func.attr == "_adjust_focus_on_contents_modified" and len(c.args) == 1 and isinstance(c.args[0], ast.Call)]

    cl = mfl.methods.get("clear")
    im = mfl.methods.get("__imul__")
    if cl is None or im is None:
        raise AnalysisError("MonitoredFocusList.clear / __imul__ not found")
    a, b = removal_slices(cl), removal_slices(im)
    rr.inst("clear: whole-list removal", True, {"clear": [norm(x) for x in a], "__imul__ (n <= 0)": [norm(x) for x in b]})
    if not a or not b:
        raise AnalysisError("clear / __imul__: the removal slice handed to _adjust_focus_on_contents_modified was not found")
    want = ast.unparse(b[0]).replace(im.self_name + ")", "SELF)")
    for x in a:
        if ast.unparse(x).replace(cl.self_name + ")", "SELF)") != want:
            rr.add(finding("SIB", cl, x, f"clear() describes itself as `{norm(x)}` to the focus arithmetic and the validate callback, the all-removing branch of __imul__ as `{norm(b[0])}`: the callback is told that nothing is removed", construct=f"clear reports {norm(x)}"))
    return rr


def rule_replaced_range(ctx: Ctx) -> RuleResult:
    """For a contiguous slice (step 1) the first len(new_items) positions of [start, stop) are *replaced in place* -
    the focus keeps its index there - and the positions from start + len(new_items) up to stop are *removed* - the
    focus moves to the item following them (`focus = stop`, shifted afterwards).  The test that sends the focus to
    `stop` therefore has exactly the bounds  start + len(new_items) <= focus < stop : a lower bound of `start`
    with an extra `not new_items` treats every shrinking replacement as in-place and leaves the focus on an
    unrelated later item."""
    from ..rules.util import linear

    p = ctx.p
    rr = RuleResult("BOUND", "C16.12", "the focus moves to `stop` exactly for start + len(new_items) <= focus < stop (the removed tail of a contiguous slice)", floor=1)
    fi = p.func(f"{ML}.MonitoredFocusList._adjust_focus_on_contents_modified")
    cfg = cfg_of(fi)
    triple = None
    nnew = None
    for n in fi.own_nodes():
        if isinstance(n, ast.Assign) and isinstance(n.value, ast.Call) and isinstance(n.value.func, ast.Attribute) and n.value.func.attr == "indices":
            for t in n.targets:
                if isinstance(t, ast.Tuple) and len(t.elts) == 3:
                    triple = [e.id for e in t.elts if isinstance(e, ast.Name)]
        if isinstance(n, ast.Assign) and isinstance(n.value, ast.Call) and isinstance(n.value.func, ast.Name) and n.value.func.id == "len" and n.value.args and isinstance(n.value.args[0], ast.Name) and n.value.args[0].id == fi.params[2] and isinstance(n.targets[0], ast.Name):
            nnew = n.targets[0].id
    if not triple or len(triple) != 3 or nnew is None:
        raise AnalysisError("_adjust_focus_on_contents_modified: slice triple / len(new_items) not found")
    start, stop, _step = triple
    moves = [n for n in cfg.nodes if isinstance(n.ast, ast.Assign) and isinstance(n.ast.value, ast.Name) and n.ast.value.id == stop and isinstance(n.ast.targets[0], ast.Name) and n.ast.targets[0].id != stop]
    if not moves:
        raise AnalysisError("_adjust_focus_on_contents_modified: the statement `focus = stop` was not found")
    for m in moves:
        fvar = m.ast.targets[0].id
        tests = [t for t in cfg.nodes if t.kind == "test" and m not in ExcEngine._reach_without_edge(cfg, t, "T") and fvar in {x.id for x in ast.walk(t.ast) if isinstance(x, ast.Name)}]
        atoms = []
        for t in tests:
            parts = t.ast.values if isinstance(t.ast, ast.BoolOp) and isinstance(t.ast.op, ast.And) else [t.ast]
            for c in parts:
                if isinstance(c, ast.Compare):
                    items = [c.left, *c.comparators]
                    for a, op, b in zip(items, c.ops, items[1:]):
                        if isinstance(op, (ast.GtE, ast.Gt)):
                            a, b, op = b, a, (ast.LtE() if isinstance(op, ast.GtE) else ast.Lt())
                        atoms.append((linear(ast.BinOp(left=b, op=ast.Sub(), right=a)), type(op).__name__, ast.unparse(ast.Compare(left=a, ops=[op], comparators=[b]))))
                else:
                    atoms.append((None, "other", ast.unparse(c)))
        want_lo = ({fvar: 1, start: -1, nnew: -1}, "LtE")   # start + n <= focus   <=>   focus - start - n >= 0
        want_hi = ({stop: 1, fvar: -1}, "Lt")                # focus < stop
        got = [(l, o) for l, o, _ in atoms]
        ok = want_lo in got and want_hi in got and all(o != "other" and (l, o) in (want_lo, want_hi) for l, o, _ in atoms)
        rr.inst(f"focus = stop under {[a[2] for a in atoms]}", True, {"move": norm(m.stmt, 30), "tests": [a[2] for a in atoms], "exact": ok})
        if not ok:
            rr.add(finding("BOUND", fi, m.stmt, f"`{norm(m.stmt, 30)}` is reached under {[a[2] for a in atoms]}, not under {start} + {nnew} <= {fvar} < {stop}: positions of the old range that receive no replacement are removed, and a focus on one of them has to move to the item after the range - with other bounds a shrinking slice assignment leaves the focus index where it was, on an unrelated later item", construct=f"removed-range test {[a[2] for a in atoms]}"))
    return rr


def run(ctx: Ctx):
    return [rule_cover(ctx), rule_order(ctx), rule_wrapper(ctx), rule_focus_setter(ctx), rule_slice_triple(ctx), rule_slice_norm(ctx), rule_norm_simultaneous(ctx), rule_index_slice_idiom(ctx), rule_focus_writers(ctx), rule_list_semantics(ctx), rule_index_coercion(ctx), rule_replaced_range(ctx), rule_index_passed_as_given(ctx), rule_base_extend_materialises(ctx), rule_sort_failure_keeps_focus(ctx)]


_F = "urwid/widget/monitored_list.py"
MUTANTS = [
    Mut("twin-sort-relocates-in-except-and-after", "urwid/widget/monitored_list.py", "MonitoredFocusList.sort", "        try:\n            rval = super().sort(**kwargs)\n        finally:\n            # the focus follows the object itself, not the first item that compares equal to it - also when a\n            # comparison raised after items had been moved\n            self.focus = next(i for i, item in enumerate(self) if item is value)\n", "        try:\n            rval = super().sort(**kwargs)\n        except BaseException:\n            self.focus = next(i for i, item in enumerate(self) if item is value)\n            raise\n        self.focus = next(i for i, item in enumerate(self) if item is value)\n", twin=True),
    Mut("sort-failure-leaves-focus", "urwid/widget/monitored_list.py", "MonitoredFocusList.sort", "        try:\n            rval = super().sort(**kwargs)\n        finally:\n            # the focus follows the object itself, not the first item that compares equal to it - also when a\n            # comparison raised after items had been moved\n            self.focus = next(i for i, item in enumerate(self) if item is value)\n", "        rval = super().sort(**kwargs)\n        self.focus = next(i for i, item in enumerate(self) if item is value)\n", "PASS|widget.monitored_list.MonitoredFocusList.sort|sort: focus not re-located when the list call raises"),
    Mut("base-extend-consumes-lazily", "urwid/widget/monitored_list.py", "MonitoredList.extend", "super().extend(list(__iterable))", "super().extend(__iterable)", "KIND|widget.monitored_list.MonitoredList.extend|MonitoredList.extend: iterable not materialised before the list call"),
    Mut("twin-base-extend-tuple", "urwid/widget/monitored_list.py", "MonitoredList.extend", "super().extend(list(__iterable))", "super().extend(tuple(__iterable))", twin=True),
    Mut("sort-empty-returns-early", "urwid/widget/monitored_list.py", "MonitoredFocusList.sort", "            # no focus to keep track of; the built-in list still validates the arguments\n            return super().sort(**kwargs)\n", "            return None\n", "ORDER|widget.monitored_list.MonitoredFocusList.sort|sort: path without list call"),
    Mut("sort-empty-drops-arguments", "urwid/widget/monitored_list.py", "MonitoredFocusList.sort", "            return super().sort(**kwargs)\n", "            return super().sort()\n", "ORDER|widget.monitored_list.MonitoredFocusList.sort|sort: arguments not passed through"),
    Mut("focus-clamp-only-for-plain-slices", "urwid/widget/monitored_list.py", "MonitoredFocusList._adjust_focus_on_contents_modified", "        return min(focus, len(self) + num_new_items - num_removed - 1)\n", "        return focus\n", "BOUND|widget.monitored_list.MonitoredFocusList._adjust_focus_on_contents_modified|computed focus returned unclamped"),
    Mut("twin-focus-clamp-assigned-then-returned", "urwid/widget/monitored_list.py", "MonitoredFocusList._adjust_focus_on_contents_modified", "        return min(focus, len(self) + num_new_items - num_removed - 1)\n", "        focus = min(focus, len(self) + num_new_items - num_removed - 1)\n        return focus\n", twin=True),
    Mut("extend-passes-consumed-iterator", "urwid/widget/monitored_list.py", "MonitoredFocusList.extend", "        items = list(items)  # any iterable may be given, also a one-pass iterator\n        focus = self._adjust_focus_on_contents_modified(slice(len(self), len(self)), items)", "        new_items = list(items)  # any iterable may be given, also a one-pass iterator\n        focus = self._adjust_focus_on_contents_modified(slice(len(self), len(self)), new_items)", "KIND|widget.monitored_list.MonitoredFocusList.extend|extend: list call gets the raw iterable"),
    Mut("shrinking-replacement-treated-as-in-place", _F, "MonitoredFocusList._adjust_focus_on_contents_modified", "if start + num_new_items <= focus < stop:", "if start <= focus < stop and not num_new_items:", "BOUND|widget.monitored_list.MonitoredFocusList._adjust_focus_on_contents_modified|removed-range"),
    Mut("twin-removed-range-two-comparisons", _F, "MonitoredFocusList._adjust_focus_on_contents_modified", "if start + num_new_items <= focus < stop:", "if focus >= start + num_new_items and focus < stop:", twin=True),
    Mut("delitem-raw-index-arithmetic", _F, "MonitoredFocusList.__delitem__", "            y = operator.index(y)  # like list: any object with __index__\n", "", "KIND|widget.monitored_list.MonitoredFocusList.__delitem__"),
    Mut("imul-raw-count-compare", _F, "MonitoredFocusList.__imul__", "        n = operator.index(n)  # like list: any object with __index__\n", "", "KIND|widget.monitored_list.MonitoredFocusList.__imul__"),
    Mut("ctor-focus-unchecked", _F, "MonitoredFocusList.__init__", "        self._focus = 0\n        self.focus = focus  # validated like every later assignment\n", "        self._focus = focus\n", "KIND|widget.monitored_list.MonitoredFocusList.__init__"),
    Mut("clear-reports-empty-slice", _F, "MonitoredFocusList.clear", "slice(0, len(self))", "slice(0, 0)", "SIB|widget.monitored_list.MonitoredFocusList.clear"),
    Mut("twin-pop-index-int-name", _F, "MonitoredFocusList.pop", "        index = operator.index(index)  # like list: any object with __index__\n", "        index = operator.index(index)\n        assert index == index\n", twin=True),
    Mut("iadd-bypasses-validation", _F, "MonitoredFocusList.__iadd__", "        self.extend(items)\n        return self", "        return super().__iadd__(items)", ("COVER|widget.monitored_list.MonitoredFocusList.__iadd__", "ORDER|widget.monitored_list.MonitoredFocusList.__iadd__")),
    Mut("sort-refinds-focus-by-equality", _F, "MonitoredFocusList.sort", "self.focus = next(i for i, item in enumerate(self) if item is value)", "self.focus = self.index(value)", "KIND|widget.monitored_list.MonitoredFocusList.sort"),
    Mut("extend-needs-len", _F, "MonitoredFocusList.extend", "        items = list(items)  # any iterable may be given, also a one-pass iterator\n", "", "KIND|widget.monitored_list.MonitoredFocusList.extend"),
    Mut("empty-list-focus-shifted", _F, "MonitoredFocusList._adjust_focus_on_contents_modified", "        if not self:\n            # nothing had the focus: the first new item gets it\n            return 0\n\n", "", "GUARD|widget.monitored_list.MonitoredFocusList._adjust_focus_on_contents_modified"),
    Mut("reverse-bypasses-focus-setter", _F, "MonitoredFocusList.reverse", "        self.focus = max(0, len(self) - self._focus - 1)", "        self._focus = max(0, len(self) - self._focus - 1)", "WRITER|widget.monitored_list.MonitoredFocusList.reverse"),
    Mut("clear-not-wrapped", _F, "MonitoredList.clear", "    @_call_modified\n    def clear(self)", "    def clear(self)", "COVER|widget.monitored_list.MonitoredList.clear", nth=0),
    Mut("focuslist-remove-not-overridden", _F, None, "    def remove(self, value: _T) -> None:\n        \"\"\"", "    def _remove_unused(self, value: _T) -> None:\n        \"\"\"", "COVER|widget.monitored_list.MonitoredFocusList"),
    Mut("insert-focus-before-call", _F, "MonitoredFocusList.insert", "        super().insert(index, item)\n        self.focus = focus", "        self._focus = focus\n        super().insert(index, item)", "ORDER|widget.monitored_list.MonitoredFocusList.insert"),
    Mut("pop-args-changed", _F, "MonitoredFocusList.pop", "rval = super().pop(index)", "rval = super().pop(index + 0 if index >= 0 else -1)", "ORDER|widget.monitored_list.MonitoredFocusList.pop"),
    Mut("extend-double-fire", _F, "MonitoredFocusList.extend", "        super().extend(items)\n", "        super().extend(items)\n        super().__iadd__([])\n", "ORDER|widget.monitored_list.MonitoredFocusList.extend"),
    Mut("append-no-focus-store", _F, "MonitoredFocusList.append", "        super().append(item)\n        self.focus = focus", "        super().append(item)", ("ORDER|widget.monitored_list.MonitoredFocusList.append", "COVER|widget.monitored_list.MonitoredFocusList.append")),
    Mut("wrapper-finally", _F, "_call_modified", "        rval = fn(self, *args, **kwargs)\n        self._modified()  # pylint: disable=protected-access\n        return rval", "        try:\n            return fn(self, *args, **kwargs)\n        finally:\n            self._modified()", "PASS|widget.monitored_list._call_modified"),
    Mut("wrapper-modified-first", _F, "_call_modified", "        rval = fn(self, *args, **kwargs)\n        self._modified()  # pylint: disable=protected-access", "        self._modified()\n        rval = fn(self, *args, **kwargs)", "PASS|widget.monitored_list._call_modified"),
    Mut("setter-range-off-by-one", _F, None, "if index < 0 or index >= len(self):", "if index < 0 or index > len(self):", "GUARD|widget.monitored_list.MonitoredFocusList.focus"),
    Mut("setter-empty-keeps-stale", _F, None, "        if not self:\n            self._focus = 0\n            return", "        if not self:\n            return", "GUARD|widget.monitored_list.MonitoredFocusList.focus"),
    Mut("setter-changed-always", _F, None, "        if index != self._focus:\n            self._focus_changed(index)", "        self._focus_changed(index)", "GUARD|widget.monitored_list.MonitoredFocusList.focus"),
    Mut("slice-range-unbounded", _F, "MonitoredFocusList._adjust_focus_on_contents_modified", "len(list(range(start, min(focus, stop), step)))", "len(range(start, focus, step))", "BOUND|"),
    Mut("negative-step-not-normalised", _F, "MonitoredFocusList._adjust_focus_on_contents_modified", "        if step < 0:\n", "        if False:\n", "NORM|"),
    Mut("reversed-bounds-not-clamped", _F, "MonitoredFocusList._adjust_focus_on_contents_modified", "        stop = max(start, stop)\n", "", "NORM|"),
    Mut("delitem-index-slice-without-none", _F, "MonitoredFocusList.__delitem__", "slice(y, y + 1 or None)", "slice(y, y + 1)", "SIB|widget.monitored_list.MonitoredFocusList.__delitem__"),
    Mut("normalisation-sequential", _F, "MonitoredFocusList._adjust_focus_on_contents_modified", "            start, stop, step = start + (num_removed - 1) * step, start + 1, -step", "            start += (num_removed - 1) * step\n            stop, step = start + 1, -step", "ORDER|widget.monitored_list.MonitoredFocusList._adjust_focus_on_contents_modified"),
    Mut("twin-normalisation-via-locals", _F, "MonitoredFocusList._adjust_focus_on_contents_modified", "            start, stop, step = start + (num_removed - 1) * step, start + 1, -step", "            lowest = start + (num_removed - 1) * step\n            start, stop, step = lowest, start + 1, -step", twin=True),
    Mut("twin-clamp-other-order", _F, "MonitoredFocusList._adjust_focus_on_contents_modified", "        stop = max(start, stop)\n", "        stop = max(stop, start)\n", twin=True),
    Mut("twin-setter-reordered-tests", _F, None, "if index < 0 or index >= len(self):", "if index >= len(self) or index < 0:", twin=True),
    Mut("twin-pop-local", _F, "MonitoredFocusList.pop", "        rval = super().pop(index)\n        self.focus = focus\n        return rval", "        popped = super().pop(index)\n        self.focus = focus\n        return popped", twin=True),
    Mut("twin-range-star", _F, "MonitoredFocusList._adjust_focus_on_contents_modified", "len(list(range(start, min(focus, stop), step)))", "len(range(start, min(stop, focus), step))", twin=True),
]
