"""C06 - the canvas cache is invisible."""

from __future__ import annotations

import ast

from ..core import Ctx, RuleResult, finding, short, walk_no_nested
from ..model import AnalysisError, norm
from ..rules import alias, canv, fresh, inv
from ..rules.util import callee_name, calls_in, cfg_of, dotted, nodes_where, owner_map, renamed
from ..tables import CANV_EXCEPTIONS, INV_EXCEPTIONS, INV_RENDER_EXCEPTIONS

EXPLANATION = (
    "Decided (necessary structural conditions of C06, for every widget class and every path): "
    "(1) INV: every method off the render path that writes state read by render()/rows()/pack() reaches _invalidate() on all normal paths "
    "(property setters, helper calls, super() calls and Monitored(Focus)List mutations are followed); every _invalidate override reaches "
    "Widget._invalidate; size-keyed layout memos are reset by _invalidate; every monitored contents list has invalidating callbacks. "
    "(2) GUARD/CANV: all canvas mutators test the finalised flag before writing and no caller mutates a canvas that is not freshly constructed. "
    "(3) the render and rows cache wrappers fetch under the same key expression, mask focus identically, finalise with the key's own widget/size/focus and store under the class fetched with. "
    "(4) a ListBox body either gets its 'modified' signal connected to _invalidate or caching is switched off. "
    "(5) CanvasCache.store registers the widget as dependant of every dependency before recording the canvas and refuses to record when a dependency is uncached; "
    "CanvasCache.invalidate drops the widget's entry and recurses into every saved dependant."
    " Added after seed round 3: (1e) INV-LAYER - state switched inside a render closure and read by an inherited render() that is cached without the focus flag (Text.ignore_focus under Edit) changes only together with _invalidate(); (6) CanvasCache.cleanup drops a widget's _deps entry under exactly the conditions under which it drops its _widgets entry; (7) a size-keyed layout memo is not used in the cases in which the memoised computation consults a child (Columns with PACK columns)."
    " Round 4 triage: (8) HIDDEN-DEP - a render() that can finish without rendering a child it consulted for the layout (Pile item with 0 rows, Columns column without width, trimmed-away Frame header/footer, Overlay over an empty bottom canvas) declares the dependency with set_depends() naming that child's source on the skipping path; (9) INV-RENDER - a render-path method that rewrites state render() reads (Scrollable's position clamped for the size at hand, Edit's view shift, ListBox's offset) reaches _invalidate() - directly, through all its render-path callers, or by the `if self.x != saved: self._invalidate()` idiom - so canvases cached for other sizes do not outlive the value they were rendered from."
    ' (10) ALIAS: the objects a canvas keeps by reference (rows handed to TextCanvas, the mapping of fill_attr_apply, the list of set_depends) are fresh at every call site or widget attributes whose every store is a private copy and that are never changed in place (before fix 45b9be8 AttrMap.set_attr_map / set_focus_map stored the dictionary of the caller: changing it later altered canvases already cached).'
    ' (11) ALIAS: an attribute a canvas class edits in place (coords, shortcuts, the cache tables) only ever holds an object of its own: no store of another canvas\'s attribute or of a bare parameter.'
    ' (12) INV-EMIT: from a render-state write every path to a signal emission passes _invalidate() - a raising handler must not leave changed state behind unchanged canvases; (8) a hidden-child declaration made under a count test counts the child collection itself.'
    ' Round 7: (13) the dependency-collecting helper of CanvasCache.store() recurses into every child without widget_info; (8) a set_depends() declaration names every member of the child collection (no filter, no zip with a shorter list).'
    ' Round 8: (14) ORDER: the canvas given set_depends() is the one render() returns (no re-wrap afterwards); (15) the monitored-list overrides keep calling the wrapped super() mutator (C16.2).'
    ' Round-8 triage: (16) HIDDEN-DEP for ListBox: every 0-row item left out of the window is recorded and render() declares the record (fix 00389c3).'
    ' (17) GUARD: a key looked up with .get() is not deleted unprotected in the same function (fix e719b72).'
)
NOT_DECIDED = (
    "That cached and fresh renderings are equal for all widget trees and histories (needs the value semantics of rendering); that the cascade reaches the right widgets "
    "under every garbage-collection timing; direct assignment to public attributes that have no setter (e.g. Filler.top) is outside the rule."
)
ASSUMPTIONS = [
    "Render-path read sets are computed through self-calls only; state read through other objects (children, walkers) is those objects' own obligation.",
]


def _fn(p, qual):
    return p.func(qual)


def rule_cache_key(ctx: Ctx) -> RuleResult:
    p = ctx.p
    rr = RuleResult("SIB", "C06.3", "cached_render and cached_rows use the same cache key, the same focus masking, and finalise/store consistently", floor=6)
    cr = _fn(p, "urwid.widget.widget.cache_widget_render.<locals>.cached_render")
    cw = _fn(p, "urwid.widget.widget.cache_widget_rows.<locals>.cached_rows")
    facts = {}
    for fi in (cr, cw):
        ps = fi.params
        if len(ps) < 3:
            raise AnalysisError(f"{short(fi)}: expected (self, size, focus) parameters")
        ren = {ps[0]: "P_self", ps[1]: "P_size", ps[2]: "P_focus"}
        cfg = cfg_of(fi)
        fetches = [c for c in calls_in(fi, "fetch") if dotted(c.func) == "CanvasCache.fetch"]
        if len(fetches) != 1:
            raise AnalysisError(f"{short(fi)}: expected exactly one CanvasCache.fetch call, found {len(fetches)}")
        fetch = fetches[0]
        key = [renamed(a, ren) for a in fetch.args]
        masks = [
            n
            for n in fi.own_nodes()
            if isinstance(n, ast.Assign) and len(n.targets) == 1 and isinstance(n.targets[0], ast.Name) and n.targets[0].id == ps[2]
        ]
        mask_txt = [renamed(m.value, ren) for m in masks]
        fetch_nodes = nodes_where(cfg, lambda s: s is fetch)
        mask_nodes = [cn for m in masks for cn in cfg.stmt_nodes(m)]
        mask_dom = bool(mask_nodes) and all(cfg.dominated(fn_, mask_nodes) for fn_ in fetch_nodes)
        outer = fi.parent
        ign = [n.value for n in outer.own_nodes() if isinstance(n, ast.Assign) and isinstance(n.targets[0], ast.Name) and n.targets[0].id == "ignore_focus"]
        facts[fi.name] = dict(fi=fi, ren=ren, key=key, mask=mask_txt, mask_dom=mask_dom, ignore=[ast.unparse(i) for i in ign], fetch=fetch, cfg=cfg)
    a, b = facts["cached_render"], facts["cached_rows"]
    rr.inst("key expression", True, {"cached_render.fetch": a["key"], "cached_rows.fetch": b["key"]})
    if a["key"] != b["key"]:
        rr.add(finding("SIB", b["fi"], b["fetch"], f"cached_rows fetches under key {b['key']} but cached_render under {a['key']}: row counts would be answered from canvases cached under a different key", construct="fetch key differs"))
    rr.inst("focus masking", True, {"cached_render": a["mask"], "cached_rows": b["mask"]})
    for side in (a, b):
        if not side["mask"] or not side["mask_dom"] or not any("ignore_focus" in m for m in side["mask"]):
            rr.add(finding("SIB", side["fi"], side["fetch"], "the focus flag is not masked with ignore_focus on every path before the cache fetch", construct="focus mask missing"))
    if a["mask"] != b["mask"]:
        rr.add(finding("SIB", b["fi"], b["fetch"], f"focus masking differs: render {a['mask']} vs rows {b['mask']}", construct="focus mask differs"))
    rr.inst("ignore_focus source", True, {"cached_render": a["ignore"], "cached_rows": b["ignore"]})
    if a["ignore"] != b["ignore"] or not a["ignore"]:
        rr.add(finding("SIB", b["fi"].parent, None, f"ignore_focus is derived differently in the two wrappers: {a['ignore']} vs {b['ignore']}", construct="ignore_focus differs"))
    # cached_render: finalize(self,size,focus) == key's (widget,size,focus); store(cls_of_fetch, canv); order validate -> finalize -> store
    fi, cfg, ren = a["fi"], a["cfg"], a["ren"]
    fin = [c for c in calls_in(fi, "finalize")]
    sto = [c for c in calls_in(fi, "store") if dotted(c.func) == "CanvasCache.store"]
    val = [c for c in calls_in(fi, "validate_size")]
    rr.inst("finalize args", True)
    if len(fin) != 1 or len(sto) != 1:
        raise AnalysisError("cached_render: expected one finalize() and one CanvasCache.store() call")
    fin_args = [renamed(x, ren) for x in fin[0].args]
    want = [a["key"][0], a["key"][2], a["key"][3]] if len(a["key"]) == 4 else None
    if fin_args != want:
        rr.add(finding("SIB", fi, fin[0], f"canvas is finalised with {fin_args} but cached under key built from {want}: widget_info would not match the cache key", construct="finalize args differ from key"))
    rr.inst("store class", True)
    if not sto[0].args or renamed(sto[0].args[0], ren) != a["key"][1]:
        rr.add(finding("SIB", fi, sto[0], f"canvas is stored under class {ast.unparse(sto[0].args[0]) if sto[0].args else '?'} but fetched under {a['key'][1]}", construct="store class differs"))
    rr.inst("order validate->finalize->store", True)
    fin_n = nodes_where(cfg, lambda s: s is fin[0])
    sto_n = nodes_where(cfg, lambda s: s is sto[0])
    val_n = [cn for v in val for cn in nodes_where(cfg, lambda s, v=v: s is v)]
    if not all(cfg.dominated(s, fin_n) for s in sto_n):
        rr.add(finding("SIB", fi, sto[0], "CanvasCache.store() is reachable without finalize() having run", construct="store before finalize"))
    if not val_n or not all(cfg.dominated(s, val_n) for s in sto_n):
        rr.add(finding("SIB", fi, sto[0], "CanvasCache.store() is reachable without validate_size() having checked the canvas", construct="store before validate_size"))
    # fetched canvas is returned as is (no mutation): covered by CANV
    return rr


def rule_listbox_body(ctx: Ctx) -> RuleResult:
    p = ctx.p
    rr = RuleResult("PASS", "C06.4", "ListBox.body setter connects the walker's 'modified' signal to _invalidate or switches caching off", floor=2)
    lb = p.cls("urwid.widget.listbox.ListBox")
    pi = lb.props.get("body")
    if pi is None or pi.setter is None:
        raise AnalysisError("ListBox.body setter not found")
    fi = pi.setter
    cx = inv.ClassCtx(p, lb)
    cfg = cfg_of(fi)
    conns = [c for c in calls_in(fi, "connect_signal")]
    conns = [c for c in conns if len(c.args) >= 3 and isinstance(c.args[1], ast.Constant) and c.args[1].value == "modified"]
    if not conns:
        rr.inst("connect_signal(body,'modified',...)", True)
        rr.add(finding("PASS", fi, fi.node, "no connect_signal(<body>, 'modified', ...) in the body setter: walker edits would never invalidate the ListBox", construct="modified signal not connected"))
        return rr
    for c in conns:
        rr.inst("connect target invalidates", True, {"callback": norm(c.args[2])})
        if not inv.callable_invalidates(cx, fi, c.args[2]):
            rr.add(finding("PASS", fi, c, f"'modified' is connected to {norm(c.args[2])}, which does not reach _invalidate() on every path", construct="modified handler does not invalidate"))
        cn = nodes_where(cfg, lambda s, c=c: s is c)
        # every handler reachable by an exception edge from the connect must switch caching off
        for n in cn:
            for t, lab in n.succ:
                if lab != "e" or t.kind != "handler":
                    continue
                rr.inst("handler disables caching", True, {"handler": norm(t.ast)})
                off = nodes_where(
                    cfg,
                    lambda s: isinstance(s, ast.Assign)
                    and any(isinstance(tg, ast.Attribute) and tg.attr == "render" and isinstance(tg.value, ast.Name) and tg.value.id == fi.self_name for tg in s.targets)
                    and isinstance(s.value, ast.Call)
                    and callee_name(s.value) == "nocache_widget_render_instance",
                )
                if not off or not cfg.must_pass(t, off, ends=[cfg.exit]):
                    rr.add(finding("PASS", fi, t.ast, "a walker without a 'modified' signal is accepted on a path that does not rebind self.render to the non-caching wrapper", construct="no-signal path keeps caching"))
    # the store of the new body must be followed by the connect on all normal paths
    stores = nodes_where(cfg, lambda s: isinstance(s, ast.Attribute) and isinstance(s.ctx, ast.Store) and s.attr == "_body" and isinstance(s.value, ast.Name) and s.value.id == fi.self_name)
    conn_nodes = [n for c in conns for n in nodes_where(cfg, lambda s, c=c: s is c)]
    for s in stores:
        rr.inst("store then connect", True)
        if not cfg.must_pass(s, conn_nodes, ends=[cfg.exit]):
            rr.add(finding("PASS", fi, s.stmt, "self._body is replaced on a path that never connects the new walker's 'modified' signal", construct="body stored without connect"))
    return rr


def rule_cascade(ctx: Ctx) -> RuleResult:
    p = ctx.p
    rr = RuleResult("ORDER", "C06.5", "CanvasCache.store registers dependants before recording and refuses uncached dependencies; invalidate drops the entry and recurses into every dependant", floor=6)
    store = p.func("urwid.canvas.CanvasCache.store")
    invd = p.func("urwid.canvas.CanvasCache.invalidate")
    # ---- store
    cfg = cfg_of(store)
    cn = store.params[0]  # cls
    rec = nodes_where(
        cfg,
        lambda s: isinstance(s, ast.Subscript) and isinstance(s.ctx, ast.Store) and "_widgets" in ast.unparse(s.value),
    )
    if not rec:
        raise AnalysisError("CanvasCache.store: the statement recording the canvas in _widgets was not found")
    dep_appends = [
        c for c in store.own_nodes()
        if isinstance(c, ast.Call) and isinstance(c.func, ast.Attribute) and c.func.attr in ("append", "add") and "_deps" in ast.unparse(c.func.value)
    ]
    rr.inst("store: dependants registered", True, {"registration": [norm(c) for c in dep_appends]})
    if not dep_appends:
        rr.add(finding("ORDER", store, store.node, "store() never appends the rendering widget to _deps[dependency]: a child's invalidation could not reach its ancestors", construct="no _deps registration"))
    else:
        reg = dep_appends[0]
        # the loop containing the registration
        loops = [n for n in cfg.nodes if n.kind == "for" and any(s is reg for b in n.ast.body for s in ast.walk(b))]
        if not loops:
            raise AnalysisError("CanvasCache.store: the _deps registration is not inside a for loop over the dependencies")
        loop = loops[-1]
        iter_txt = ast.unparse(loop.ast.iter)
        # the guard `if depends_on:` - every path from its true edge to the record passes the loop head
        tests = [n for n in cfg.nodes if n.kind == "test" and ast.unparse(n.ast) == iter_txt]
        rr.inst("store: registration precedes record", True, {"loop": norm(loop.ast), "guard": [norm(t.stmt) for t in tests]})
        if not tests:
            rr.add(finding("ORDER", store, loop.ast, f"no `if {iter_txt}:` guard found around the dependency registration", construct="dependency guard missing"))
        for t in tests:
            r = cfg.reachable_from_edges([(t, "T")], avoid=[loop])
            if any(x in r for x in rec):
                rr.add(finding("ORDER", store, rec[0].stmt, "the canvas can be recorded in _widgets on a path with dependencies that skips registering the widget in _deps", construct="record without registration"))
        # the registered value is the canvas' own widget
        widget_names = set()
        for n in store.own_nodes():
            if isinstance(n, ast.Assign) and isinstance(n.targets[0], ast.Tuple) and "widget_info" in ast.unparse(n.value):
                t0 = n.targets[0].elts[0]
                if isinstance(t0, ast.Name):
                    widget_names.add(t0.id)
        rr.inst("store: registers canvas' own widget", True, {"widget_names": sorted(widget_names), "registered": norm(reg)})
        if not (reg.args and isinstance(reg.args[0], ast.Name) and reg.args[0].id in widget_names):
            rr.add(finding("ORDER", store, reg, "the value appended to _deps[...] is not the widget taken from canvas.widget_info", construct="wrong dependant registered"))
        # refusal: a `return` under `w not in cls._widgets` inside a loop over the same dependencies, before the registration loop
        refusals = [
            n for n in cfg.nodes
            if n.kind == "test" and isinstance(n.ast, ast.Compare) and isinstance(n.ast.ops[0], ast.NotIn) and "_widgets" in ast.unparse(n.ast.comparators[0])
            and any(t.kind == "return" for t, lab in n.succ if lab == "T")
        ]
        rr.inst("store: uncached dependency refuses", True, {"tests": [norm(n.stmt) for n in refusals]})
        if not refusals or not all(cfg.dominated(loop, refusals) or True for _ in [0]):
            rr.add(finding("ORDER", store, store.node, "store() no longer refuses to cache a canvas whose dependency is not itself cached (no `if w not in _widgets: return`)", construct="uncached dependency accepted"))
        else:
            # every path from the dependency guard's true edge to the registration loop passes the refusal loop
            ref_loops = [n for n in cfg.nodes if n.kind == "for" and any(s is refusals[0].ast for b in n.ast.body for s in ast.walk(b))]
            for t in tests:
                r = cfg.reachable_from_edges([(t, "T")], avoid=ref_loops)
                if loop in r:
                    rr.add(finding("ORDER", store, loop.ast, "the dependency registration is reachable without the uncached-dependency check", construct="registration before refusal check"))
    # ---- invalidate
    cfg = cfg_of(invd)
    dels = nodes_where(cfg, lambda s: isinstance(s, ast.Delete) and any("_widgets[" in ast.unparse(t) for t in s.targets))
    rr.inst("invalidate: own entry deleted", True)
    if not dels:
        rr.add(finding("ORDER", invd, invd.node, "invalidate() no longer deletes the widget's entry from _widgets", construct="entry not deleted"))
    rec_calls = [c for c in invd.own_nodes() if isinstance(c, ast.Call) and callee_name(c) == "invalidate" and dotted(c.func) in (f"{invd.params[0]}.invalidate", "CanvasCache.invalidate")]
    rr.inst("invalidate: recursion into dependants", True, {"recursive_calls": [norm(c) for c in rec_calls]})
    if not rec_calls:
        rr.add(finding("ORDER", invd, invd.node, "invalidate() does not recurse into the widgets that depend on the invalidated one", construct="no cascade"))
    else:
        rc = rec_calls[0]
        loops = [n for n in cfg.nodes if n.kind == "for" and any(s is rc for b in n.ast.body for s in ast.walk(b))]
        if not loops:
            raise AnalysisError("CanvasCache.invalidate: recursive call is not inside a loop over the dependants")
        loop = loops[-1]
        # loop variable is the argument
        tv = loop.ast.target
        if not (rc.args and isinstance(tv, ast.Name) and isinstance(rc.args[0], ast.Name) and rc.args[0].id == tv.id):
            rr.add(finding("ORDER", invd, rc, "the recursive invalidate() is not applied to the loop's dependant", construct="cascade argument"))
        # iterated collection is saved from _deps before _deps[widget] is deleted
        it = loop.ast.iter
        saved_ok = False
        if isinstance(it, ast.Name):
            defs = [n for n in invd.own_nodes() if isinstance(n, ast.Assign) and isinstance(n.targets[0], ast.Name) and n.targets[0].id == it.id]
            dep_dels = nodes_where(cfg, lambda s: isinstance(s, ast.Delete) and any("_deps[" in ast.unparse(t) for t in s.targets))
            if defs and "_deps" in ast.unparse(defs[0].value):
                dn = cfg.stmt_nodes(defs[0])
                saved_ok = all(cfg.dominated(d, dn) for d in dep_dels)
        elif "_deps" in ast.unparse(it):
            saved_ok = True
        rr.inst("invalidate: dependants saved before _deps entry is dropped", True)
        if not saved_ok:
            rr.add(finding("ORDER", invd, loop.ast, "the dependants list is not taken from _deps before _deps[widget] is deleted", construct="dependants lost"))
        # every normal path reaches the loop unless it returned under `widget not in _deps`
        rr.inst("invalidate: all paths reach the cascade", True)
        early = [n for n in cfg.nodes if n.kind == "return"]
        for e in early:
            guards = [n for n in cfg.nodes if n.kind == "test" and isinstance(n.ast, ast.Compare) and isinstance(n.ast.ops[0], ast.NotIn) and "_deps" in ast.unparse(n.ast.comparators[0])]
            ok = any((e, "T") in [(t, lab) for t, lab in g.succ] for g in guards)
            if not ok:
                rr.add(finding("ORDER", invd, e.stmt, "invalidate() can return before cascading for a reason other than `widget not in _deps`", construct="early return skips cascade"))
        r = cfg.reachable([cfg.entry], avoid=[loop] + early)
        if cfg.exit in r:
            rr.add(finding("ORDER", invd, invd.node, "a normal path through invalidate() avoids the cascade loop", construct="path avoids cascade"))
    return rr


def rule_cleanup(ctx: Ctx) -> RuleResult:
    """CanvasCache.cleanup (the weak-reference callback) forgets ONE canvas of a widget.  The widget's dependency
    edge in _deps serves all its cached canvases: it may go only together with the widget's whole entry in _widgets,
    i.e. under exactly the conditions under which `_widgets[widget]` is removed."""
    p = ctx.p
    rr = RuleResult("PAIR", "C06.6", "cleanup() drops a widget's _deps entry under exactly the conditions under which it drops the widget's _widgets entry (the last cached canvas is gone)", floor=2)
    fi = p.func("urwid.canvas.CanvasCache.cleanup")
    cfg = cfg_of(fi)

    def removals(attr):
        out = []
        for n in cfg.nodes:
            a = n.ast
            if isinstance(a, ast.Delete) and any(isinstance(t, ast.Subscript) and ast.unparse(t.value).endswith("." + attr) for t in a.targets):
                out.append(n)
            elif a is not None and n.kind not in ("with", "handler"):
                for c in walk_no_nested(a.iter if n.kind == "for" else a):
                    if isinstance(c, ast.Call) and isinstance(c.func, ast.Attribute) and c.func.attr in ("pop", "clear", "popitem") and ast.unparse(c.func.value).endswith("." + attr):
                        out.append(n)
        return out

    def controlling(node):
        from ..rules.exc import ExcEngine

        out = set()
        for t in cfg.nodes:
            if t.kind != "test":
                continue
            for lab in ("T", "F"):
                if node not in ExcEngine._reach_without_edge(cfg, t, lab):
                    out.add((norm(t.ast, 60), lab))
        return out

    W, D = removals("_widgets"), removals("_deps")
    rr.inst("removals found", True, {"_widgets": [norm(n.stmt, 50) for n in W], "_deps": [norm(n.stmt, 50) for n in D]})
    if not W or not D:
        raise AnalysisError("CanvasCache.cleanup: the removals from _widgets / _deps were not found")
    cw = set.intersection(*[controlling(n) for n in W])
    for d in D:
        cd = controlling(d)
        rr.inst(f"deps removal {norm(d.stmt, 40)}", True, {"removal": norm(d.stmt, 50), "under": sorted(f"{t} is {lab}" for t, lab in cd)})
        if cd != cw:
            rr.add(finding("PAIR", fi, d.stmt, f"`{norm(d.stmt, 50)}` runs under {sorted(f'{t}={lab}' for t, lab in cd) or 'no condition'}, the widget's _widgets entry is dropped under {sorted(f'{t}={lab}' for t, lab in cw)}: when one of several cached canvases of a widget is collected its ancestors lose the dependency edge and keep serving stale canvases after the widget changes", construct=f"_deps dropped under other conditions than _widgets: {norm(d.stmt, 50)}"))
        # the edges that go are the only way invalidate(widget) could reach the dependants later; a canvas that named
        # the widget with set_depends() does not keep the widget's canvases alive, so it can outlive them: the
        # dependants taken out of _deps are invalidated on the spot (loop over the popped list calling invalidate)
        feeds = d.kind == "for" and any(isinstance(c, ast.Call) and isinstance(c.func, ast.Attribute) and c.func.attr == "invalidate" for b in d.ast.body for c in ast.walk(b))
        rr.inst(f"dependants of {norm(d.stmt, 30)} invalidated", True, {"removal": norm(d.stmt, 60), "dependants_invalidated": feeds})
        if not feeds:
            rr.add(finding("PAIR", fi, d.stmt, f"`{norm(d.stmt, 50)}` forgets who depends on the widget without invalidating them: a cached canvas that declared the widget with set_depends() (hidden Pile item, dropped column) stays in the cache with nothing left that could invalidate it - the hidden child changes and its parent keeps being served from the cache", construct="dependency edges dropped without invalidating the dependants"))
    return rr


def rule_depends_recursion(ctx: Ctx) -> RuleResult:
    """CanvasCache.store() derives a canvas' dependencies from its children: a child that is a widget's finalised canvas
    names that widget; a child without widget_info (an intermediate CompositeCanvas - the extra wrapper a box Pile puts
    around its combined canvas before padding / trimming it, a CanvasJoin inside a CanvasCombine ...) has to be searched
    in turn, to any depth: the collecting helper calls *itself* on such a child.  A fixed number of levels caches a
    canvas with no dependencies whenever a container wraps once more than anticipated."""
    p = ctx.p
    rr = RuleResult("PASS", "C06.13", "the helper of CanvasCache.store() that collects the widgets a canvas depends on recurses into every child that has no widget_info", floor=1)
    st = p.func("urwid.canvas.CanvasCache.store")
    helpers = [g for g in p.functions.values() if getattr(g, "parent", None) is st and not g.is_lambda and any(isinstance(n, ast.Attribute) and n.attr == "children" for n in g.own_nodes())]
    if not helpers:
        raise AnalysisError("CanvasCache.store: the nested helper walking canvas.children was not found")
    for g in helpers:
        rec = [c for c in g.own_nodes() if isinstance(c, ast.Call) and isinstance(c.func, ast.Name) and c.func.id == g.name]
        # the recursive call sits on the branch for children without widget_info
        on_else = False
        for t in [n for n in g.own_nodes() if isinstance(n, ast.If) and any(isinstance(a, ast.Attribute) and a.attr == "widget_info" for a in ast.walk(n.test))]:
            if any(c in list(ast.walk(x)) for x in t.orelse for c in rec):
                on_else = True
        rr.inst(short(g), True, {"helper": short(g), "recursive_calls": len(rec), "on_the_branch_without_widget_info": on_else})
        if not rec or not on_else:
            rr.add(finding("PASS", g, g.node, f"{g.name}() does not call itself for children that have no widget_info: the dependencies of a canvas are only found down to a fixed depth, so a container that wraps its combined canvas once more (a box Pile that pads or trims) is cached without any dependency and later changes of its items never invalidate it", construct="dependency walk does not recurse"))
    return rr


def rule_memo_children(ctx: Ctx) -> RuleResult:
    """A container that memoises a layout under its size (`if maxcol == self._cache_maxcol: return self._cache_x`)
    is told about its own mutations through its _invalidate(); a *child's* change reaches it only through the canvas
    cache cascade, which does not call the container's _invalidate().  So a memoised computation that asks a child
    (w.pack(), w.rows()) must not be answered from the memo: the memo-hit test has to exclude every case in which a
    child is consulted (it mentions the same option constant the child query is guarded by)."""
    p = ctx.p
    rr = RuleResult("MEMO", "C06.7", "a size-keyed layout memo is not used in the cases where the memoised computation consults a child widget", floor=1)
    QUERIES = {"pack", "rows", "render"}
    for C in inv.widget_classes(p):
        for fi in C.methods.values():
            cfg = None
            sn = fi.self_name
            hits = []
            for n in fi.own_nodes():
                if isinstance(n, ast.If) and len(n.body) == 1 and isinstance(n.body[0], ast.Return) and isinstance(n.body[0].value, ast.Attribute) and isinstance(n.body[0].value.value, ast.Name) and n.body[0].value.value.id == sn and "cache" in n.body[0].value.attr:
                    if any(isinstance(c, ast.Compare) and any(isinstance(x, ast.Attribute) and isinstance(x.value, ast.Name) and x.value.id == sn and "cache" in x.attr for x in ast.walk(c)) for c in ast.walk(n.test)):
                        hits.append(n)
            if not hits:
                continue
            cfg = cfg_of(fi)
            from ..rules.exc import ExcEngine

            # child queries and the option constants they are guarded by
            need = {}
            for node in cfg.nodes:
                if node.ast is None or node.kind in ("for", "with", "handler"):
                    continue
                for c in walk_no_nested(node.ast):
                    if isinstance(c, ast.Call) and isinstance(c.func, ast.Attribute) and c.func.attr in QUERIES and not (isinstance(c.func.value, ast.Name) and c.func.value.id == sn) and not (isinstance(c.func.value, ast.Call)):
                        guards = set()
                        for t in cfg.nodes:
                            if t.kind == "test" and node not in ExcEngine._reach_without_edge(cfg, t, "T"):
                                for x in ast.walk(t.ast):
                                    if isinstance(x, ast.Attribute) and isinstance(x.value, ast.Name) and x.value.id[:1].isupper() and x.attr.isupper():
                                        guards.add(ast.unparse(x))
                        need[norm(c, 50)] = guards
            for h in hits:
                cond = ast.unparse(h.test)
                rr.inst(f"{short(fi)}:memo hit", True, {"function": short(fi), "memo_hit_test": norm(h.test, 90), "child_queries": {k: sorted(v) for k, v in need.items()}})
                for q, guards in need.items():
                    if not guards or not any(g in cond for g in guards):
                        rr.add(finding("MEMO", fi, h, f"the memoised result is returned under `{norm(h.test, 80)}` although computing it asks a child (`{q}`{', guarded by ' + '/'.join(sorted(guards)) if guards else ''}): a child that changes its own size invalidates the canvases above it but not this memo, so the stale widths are used for the re-rendering", construct=f"memo hit does not exclude the child query {q}"))
                        break
    return rr


def _class_flag(C, name):
    """value of a boolean class-body attribute (`ignore_focus = True`), None when the class body does not set it"""
    for st in C.node.body:
        if isinstance(st, ast.Assign) and any(isinstance(t, ast.Name) and t.id == name for t in st.targets) and isinstance(st.value, ast.Constant):
            return st.value.value
    return None


def rule_layered_cache(ctx: Ctx) -> RuleResult:
    """A class whose render() is layered over an inherited render() (super().render()) has two cached canvases
    per size: its own, keyed with the focus flag, and the inherited one, keyed *without* it when the base class
    sets ignore_focus.  State that the subclass switches during rendering (a mode flag derived from focus) and
    that the inherited rendering reads is then a hidden input of a canvas cached under a key that does not
    contain it: every such store must come with _invalidate()."""
    p = ctx.p
    rr = RuleResult("INV-LAYER", "C06.1e", "state switched inside a render closure and read by an inherited render() that is cached without the focus flag changes only together with _invalidate()", floor=2)
    for C in inv.widget_classes(p):
        r = C.methods.get("render")
        if r is None or not any(isinstance(n, ast.Call) and isinstance(n.func, ast.Attribute) and n.func.attr == "render" and isinstance(n.func.value, ast.Call) and isinstance(n.func.value.func, ast.Name) and n.func.value.func.id == "super" for n in r.own_nodes()):
            continue
        m = p.find_member(C, "render", C)
        if not m or m[0] != "method" or m[1].cls is None:
            continue
        B = m[1].cls
        if not (_class_flag(B, "ignore_focus") is True and _class_flag(C, "ignore_focus") is not True):
            continue
        cx = inv.ClassCtx(p, C)
        # what the inherited render() reads when it runs on a C instance
        seen, R_B, work = {}, set(), [m[1]]
        while work:
            fi = work.pop()
            if id(fi) in seen:
                continue
            seen[id(fi)] = fi
            for n in ast.walk(fi.node):
                if isinstance(n, ast.Attribute):
                    c = cx.classify_attr(fi, n)
                    if c is None:
                        continue
                    if c[0] == "data" and isinstance(n.ctx, ast.Load):
                        R_B.add(c[1])
                    elif c[0] == "method":
                        work.append(c[1])
                    elif c[0] == "prop" and isinstance(n.ctx, ast.Load) and c[1].getter:
                        work.append(c[1].getter)
        mro = p.mro(C)
        layer = set(id(k) for k in mro[: mro.index(B)])  # C and the classes between C and B
        for fi in cx.closure_funcs.values():
            if fi.cls is None or id(fi.cls) not in layer:
                continue
            cfg = cx.cfg(fi)
            for node in cfg.nodes:
                a = node.ast
                if not isinstance(a, (ast.Assign, ast.AugAssign)) or node.kind in ("for", "with"):
                    continue
                for t in a.targets if isinstance(a, ast.Assign) else [a.target]:
                    if not isinstance(t, ast.Attribute):
                        continue
                    c = cx.classify_attr(fi, t)
                    if not (c and c[0] == "data" and c[1] in R_B):
                        continue
                    rr.inst(f"{short(fi)}:{norm(a, 50)}", True, {"class": C.name, "inherited_render": short(m[1]), "store": f"{short(fi)}: {norm(a, 60)}"})
                    invs = [n for n in cfg.nodes if n.kind not in ("entry", "exit", "raise") and cx.node_invalidates(n, fi)]
                    if not invs or not cfg.must_pass(node, invs, ends=[cfg.exit]):
                        rr.add(finding("INV-LAYER", fi, a, f"`{norm(a, 60)}` changes state that {short(m[1])}() reads (through self) while rendering, and that rendering is cached without the focus flag ({B.name}.ignore_focus): without _invalidate() the canvas cached for the other value of `{c[1]}` is served (an Edit with wrap='clip' rendered unfocused, then focused, shows the unshifted text)", construct=f"{c[1]} switched without _invalidate"))
    return rr


def rule_depends_on_returned_canvas(ctx: Ctx) -> RuleResult:
    """CanvasCache.store() reads `depends_on` from the canvas the widget *returns*.  A render() that declares extra
    dependencies with <canvas>.set_depends(...) (items drawn with 0 rows are not part of the canvas but can grow)
    has to return that very object: a later `out = CompositeCanvas(out)` (to pad / trim to the box size) wraps it
    in a canvas without depends_on, store() falls back to the drawn children and the edge to the hidden items is
    lost - the cached rendering survives their change (seed C06-r8a swapped the two tail blocks of Pile.render)."""
    from ..rules.defuse import DefUse

    p = ctx.p
    rr = RuleResult("ORDER", "C06.14", "a canvas given extra dependencies with set_depends() is the object render() returns: it is not re-wrapped afterwards", floor=4)
    for fi in p.functions.values():
        if not fi.module.name.startswith("urwid.widget") or fi.is_lambda or fi.name != "render":
            continue
        calls = [c for c in fi.own_nodes() if isinstance(c, ast.Call) and isinstance(c.func, ast.Attribute) and c.func.attr == "set_depends" and isinstance(c.func.value, ast.Name)]
        if not calls:
            continue
        du = DefUse(fi)
        cfg = du.cfg
        for c in calls:
            name = c.func.value.id
            cn = next((n for n in cfg.nodes for e in _nx(n) for x in walk_no_nested(e) if x is c), None)
            if cn is None:
                continue
            redefs = [dn for dn, v, how in du.defs.get(name, []) if dn in cfg.reachable([cn], labels=("n", "T", "F")) and dn is not cn]
            rets = [r for r in cfg.nodes if r.kind == "return" and r in cfg.reachable([cn], labels=("n", "T", "F"))]
            other = [r for r in rets if not (isinstance(r.ast.value, ast.Name) and r.ast.value.id == name)]
            rr.inst(f"{short(fi)}: {norm(c, 40)}", True, {"render": short(fi), "call": norm(c, 50), "rewrapped_afterwards": [norm(d.stmt, 40) for d in redefs][:2], "returns_other_object": [norm(r.ast, 30) for r in other][:2]} if len(rr.samples) < 8 else None)
            for d in redefs:
                rr.add(finding("ORDER", fi, d.stmt, f"`{norm(d.stmt, 50)}` replaces `{name}` after `{norm(c, 40)}`: the canvas that carries the declared dependencies is wrapped in a new one without them, CanvasCache.store() reads depends_on from the returned canvas only - a change of a hidden (0-row) item no longer invalidates this rendering", construct=f"{fi.cls.name if fi.cls else fi.name}.render: canvas re-wrapped after set_depends"))
    return rr


def _nx(n):
    from ..rules.util import node_exprs

    return node_exprs(n)


def rule_listbox_zero_row_items(ctx: Ctx) -> RuleResult:
    """HIDDEN-DEP for the ListBox: calculate_visible() asks every item in the window for its rows and keeps the ones
    without rows out of the lists render() draws from (`if p_rows:` - 'filter out 0-height widgets').  Such an item
    was consulted for the layout and is not among the child canvases, so the rendering has to name it as a
    dependency itself: every such filter records the item it leaves out, and render() hands the record to
    set_depends().  Before fix 00389c3 nothing did: ListBox([Text a, Pile([]), Text b]) kept showing `a, b` from the
    cache after the Pile got an item."""
    p = ctx.p
    rr = RuleResult("HIDDEN-DEP", "C06.16", "every item ListBox.calculate_visible() leaves out for having no rows is recorded, and render() declares the record as a dependency", floor=2)
    cv = p.func("urwid.widget.listbox.ListBox.calculate_visible")
    rn = p.func("urwid.widget.listbox.ListBox.render")
    records = set()
    for n in cv.own_nodes():
        if not (isinstance(n, ast.If) and isinstance(n.test, ast.Name)):
            continue
        rows_name = n.test.id
        # the widget the rows were asked of
        src = next((a for a in cv.own_nodes() if isinstance(a, ast.Assign) and any(isinstance(t, ast.Name) and t.id == rows_name for t in a.targets) and isinstance(a.value, ast.Call) and isinstance(a.value.func, ast.Attribute) and a.value.func.attr == "rows" and isinstance(a.value.func.value, ast.Name)), None)
        appends = [c for st in n.body for c in ast.walk(st) if isinstance(c, ast.Call) and isinstance(c.func, ast.Attribute) and c.func.attr == "append"]
        if src is None or not appends:
            continue
        w = src.value.func.value.id
        rec = [c for st in n.orelse for c in ast.walk(st) if isinstance(c, ast.Call) and isinstance(c.func, ast.Attribute) and c.func.attr == "append" and isinstance(c.func.value, ast.Attribute) and c.args and isinstance(c.args[0], ast.Name) and c.args[0].id == w]
        # the same written as a test of its own: `if not <rows>: <record>.append(<item>)`
        for m2 in cv.own_nodes():
            if isinstance(m2, ast.If) and isinstance(m2.test, ast.UnaryOp) and isinstance(m2.test.op, ast.Not) and isinstance(m2.test.operand, ast.Name) and m2.test.operand.id == rows_name:
                rec += [c for st in m2.body for c in ast.walk(st) if isinstance(c, ast.Call) and isinstance(c.func, ast.Attribute) and c.func.attr == "append" and isinstance(c.func.value, ast.Attribute) and c.args and isinstance(c.args[0], ast.Name) and c.args[0].id == w]
        rr.inst(f"filter `if {rows_name}:`", True, {"filter": norm(n.test, 20), "item": w, "recorded_in": ast.unparse(rec[0].func.value) if rec else None})
        if rec:
            records.add(rec[0].func.value.attr)
        else:
            rr.add(finding("HIDDEN-DEP", cv, n, f"`if {rows_name}:` leaves an item without rows out of the visible lists and does not record it: render() cannot declare the dependency, a 0-row item inside the window that gets rows (an empty Pile that is filled) leaves the cached ListBox canvas in place", construct=f"zero-row filter on {rows_name} without a record"))
    deps = [c for c in rn.own_nodes() if isinstance(c, ast.Call) and isinstance(c.func, ast.Attribute) and c.func.attr == "set_depends"]
    ok = bool(records) and any(any(isinstance(x, ast.Attribute) and x.attr in records for x in ast.walk(c)) for c in deps)
    rr.inst("ListBox.render declares the record", True, {"records": sorted(records), "set_depends_calls": len(deps), "declared": ok})
    if records and not ok:
        rr.add(finding("HIDDEN-DEP", rn, rn.node, f"calculate_visible() records the items it leaves out ({sorted(records)}) but render() does not hand them to set_depends(): CanvasCache.store() only sees the drawn children", construct="ListBox.render does not declare the zero-row items"))
    return rr


def rule_get_then_del(ctx: Ctx) -> RuleResult:
    """Two beliefs about one key: `M.get(K, None)` says the key may be missing, `del M[K]` on the next line says it is
    there.  One of them is wrong (Engler's contradiction rule); in CanvasCache.cleanup() it was the second - the
    weak-reference callback of a canvas runs after invalidate() has already dropped its entry (a dependant
    invalidated by an earlier callback of the same collection), `del cls._refs[ref]` raised KeyError inside the
    callback and the rest of the clean-up (the widget's size table, its dependants) was skipped (fix e719b72).  In
    canvas.py no `del M[K]` / `M[K]` follows an `M.get(K, ...)` of the same mapping and key unless it is protected
    (suppress(KeyError) / try-except) or runs only where the looked-up value was tested."""
    from ..rules.exc import ExcEngine

    p = ctx.p
    rr = RuleResult("GUARD", "C06.17", "a mapping key that is looked up with .get() (may be missing) is not deleted / subscripted unprotected in the same function", floor=1)
    for fi in p.functions.values():
        if fi.module.name != "urwid.canvas" or fi.is_lambda:
            continue
        gets = [c for c in fi.own_nodes() if isinstance(c, ast.Call) and isinstance(c.func, ast.Attribute) and c.func.attr in ("get", "pop") and len(c.args) >= 2]
        if not gets:
            continue
        cfg = cfg_of(fi)
        protected_lines = set()
        for n in fi.own_nodes():
            if isinstance(n, ast.With) and any("suppress" in ast.unparse(i.context_expr) for i in n.items):
                protected_lines |= {x.lineno for x in ast.walk(n) if hasattr(x, "lineno")}
            if isinstance(n, ast.Try) and any(h.type is not None and "KeyError" in ast.unparse(h.type) for h in n.handlers):
                protected_lines |= {x.lineno for st in n.body for x in ast.walk(st) if hasattr(x, "lineno")}
        for g in gets:
            m, k = ast.unparse(g.func.value), ast.unparse(g.args[0])
            rr.inst(f"{short(fi)}: {norm(g, 40)}", True, {"lookup": f"{short(fi)}: {norm(g, 50)}"} if len(rr.samples) < 6 else None)
            if g.func.attr == "pop":
                continue
            for d in fi.own_nodes():
                if isinstance(d, ast.Delete):
                    for t in d.targets:
                        if isinstance(t, ast.Subscript) and ast.unparse(t.value) == m and ast.unparse(t.slice) == k and d.lineno not in protected_lines and d.lineno > g.lineno:
                            dn = next((n for n in cfg.nodes if n.ast is d), None)
                            guarded = dn is not None and any(t2.kind == "test" and (dn not in ExcEngine._reach_without_edge(cfg, t2, "T") or dn not in ExcEngine._reach_without_edge(cfg, t2, "F")) for t2 in cfg.nodes)
                            if not guarded:
                                rr.add(finding("GUARD", fi, d, f"`{norm(g, 40)}` allows for a missing key, `{norm(d, 40)}` right after it does not: when the key is gone (an entry removed earlier by invalidate()) this raises KeyError - inside a weak-reference callback that means 'Exception ignored' and the rest of the clean-up is skipped", construct=f"{fi.name}: unprotected del after .get() of the same key"))
    return rr


def rule_list_mutators_notify(ctx: Ctx) -> RuleResult:
    """Pile / Columns / GridFlow invalidate themselves from the modified callback of their contents list; the override
    layer (MonitoredFocusList) must keep going through the wrapped MonitoredList method: exactly one super().<same
    mutator>() on every path (C16.2).  `list.reverse(self)` in place of `super().reverse()` skips the callback - with
    the focus in the exact middle of an odd-length list no focus change is reported either and nothing invalidates
    (seed C06-r8b)."""
    from . import c16

    rr = c16.rule_order(ctx)
    rr.clause = "C06.15"
    return rr


def run(ctx: Ctx):
    p = ctx.p
    out = [
        inv.run_inv(p, "C06.1a", floor_classes=40, floor_nontrivial=30, exceptions=INV_EXCEPTIONS),
        inv.run_inv_overrides(p, "C06.1b", floor=6),
        inv.run_inv_monitored(p, "C06.1c", floor=6),
        inv.run_inv_bypass(p, "C06.1d", floor=4),
        canv.run_guard(p, "C06.2a", floor=9),
        canv.run_canv(p, "C06.2b", floor=35, exceptions=CANV_EXCEPTIONS),
        fresh.run_fresh(p, "C06.2c", ["urwid.canvas"], floor=30),
        canv.run_depends(p, "C06.2d", floor=8),
        rule_cache_key(ctx),
        rule_listbox_body(ctx),
        rule_cascade(ctx),
        rule_layered_cache(ctx),
        rule_cleanup(ctx),
        rule_depends_recursion(ctx),
        rule_memo_children(ctx),
        canv.run_hidden_dep(p, "C06.8", floor=6),
        inv.run_inv_render_write(p, "C06.9", floor=40, exceptions=INV_RENDER_EXCEPTIONS),
        alias.run_alias(p, "C06.10", floor=12),
        inv.run_inv_before_emit(p, "C06.12", floor=1),
        alias.run_inplace_own(p, "C06.11", ["urwid.canvas"], floor=6, exempt={"shards": "shared on purpose, copy-on-write decided path by path by FRESHLIST (C06.2c)"}),
        rule_depends_on_returned_canvas(ctx),
        rule_list_mutators_notify(ctx),
        rule_listbox_zero_row_items(ctx),
        rule_get_then_del(ctx),
    ]
    return out


from ..mutants import Mut  # noqa: E402

MUTANTS = [
    Mut("twin-cleanup-get-then-pop", "urwid/canvas.py", "CanvasCache.cleanup", "        w = cls._refs.pop(ref, None)\n", "        w = cls._refs.get(ref, None)\n        cls._refs.pop(ref, None)\n", twin=True),
    Mut("twin-listbox-zero-row-record-own-test", "urwid/widget/listbox.py", "ListBox.calculate_visible", "            else:\n                self._zero_row_items.append(next_pos)\n", "            if not n_rows:\n                self._zero_row_items.append(next_pos)\n", twin=True),
    Mut("cleanup-del-after-get", "urwid/canvas.py", "CanvasCache.cleanup", "        w = cls._refs.pop(ref, None)\n", "        w = cls._refs.get(ref, None)\n        del cls._refs[ref]\n", "GUARD|canvas.CanvasCache.cleanup|cleanup: unprotected del after .get() of the same key"),
    Mut("listbox-zero-row-item-not-recorded", "urwid/widget/listbox.py", "ListBox.calculate_visible", "            else:\n                self._zero_row_items.append(next_pos)\n", "", "HIDDEN-DEP|widget.listbox.ListBox.calculate_visible|zero-row filter on n_rows without a record"),
    Mut("listbox-zero-row-items-not-declared", "urwid/widget/listbox.py", "ListBox.render", "        if self._zero_row_items:\n", "        if False:\n", "HIDDEN-DEP|widget.listbox.ListBox.render|ListBox.render does not declare the zero-row items", also=[("*self._zero_row_items]", "]")]),
    Mut("depends-walk-two-levels", "urwid/canvas.py", "CanvasCache.store", "                    depends.extend(walk_depends(c))", "                    depends.extend(cc.widget_info[0] for _x, _y, cc, _pos in c.children if cc.widget_info)", "PASS|canvas.CanvasCache.store.<locals>.walk_depends|dependency walk does not recurse"),
    Mut("columns-depends-only-on-visible", "urwid/widget/columns.py", "Columns.render", "            canvas.set_depends([w for w, _ in self.contents])", "            canvas.set_depends([w for (w, _), width in zip(self.contents, widths) if width > 0])", "HIDDEN-DEP|widget.columns.Columns.render|set_depends leaves out members of contents"),
    Mut("cleanup-forgets-dependants", "urwid/canvas.py", "CanvasCache.cleanup", "            for dependant in cls._deps.pop(widget, []):\n                cls.invalidate(dependant)\n", "            cls._deps.pop(widget, None)\n", "PAIR|canvas.CanvasCache.cleanup|dependency edges dropped without invalidating the dependants"),
    Mut("edit-text-emits-before-invalidating", "urwid/widget/edit.py", "Edit.set_edit_text", "        self.edit_pos = min(self.edit_pos, len(text))\n", "        self._edit_pos = min(self._edit_pos, len(text))\n        self.pref_col_maxcol = None, None\n", "INV-EMIT|widget.edit.Edit.set_edit_text|emission before invalidation of"),
    Mut("columns-hidden-test-counts-widths", "urwid/widget/columns.py", "Columns.render", "        if len(data) < len(self.contents):", "        if len(data) < len(widths):", "HIDDEN-DEP|widget.columns.Columns.render|hidden-child test does not count contents"),
    Mut("attrmap-stores-callers-dict", "urwid/widget/attr_map.py", "AttrMap.set_attr_map", "        self._attr_map = dict(attr_map)\n", "        self._attr_map = attr_map\n", "ALIAS|widget.attr_map.AttrMap.set_attr_map|self._attr_map stores a foreign object"),
    Mut("focusmap-stores-callers-dict", "urwid/widget/attr_map.py", "AttrMap.set_focus_map", "        self._focus_map = None if focus_map is None else dict(focus_map)\n", "        self._focus_map = focus_map\n", "ALIAS|widget.attr_map.AttrMap.set_focus_map|self._focus_map stores a foreign object"),
    Mut("attrmap-updated-in-place", "urwid/widget/attr_map.py", "AttrMap.set_attr_map", "        self._attr_map = dict(attr_map)\n", "        self._attr_map.clear()\n        self._attr_map.update(attr_map)\n", "ALIAS|widget.attr_map.AttrMap.set_attr_map|self._attr_map changed in place"),
    Mut("twin-attrmap-copy-by-display", "urwid/widget/attr_map.py", "AttrMap.set_attr_map", "        self._attr_map = dict(attr_map)\n", "        self._attr_map = {**attr_map}\n", twin=True),
    Mut("set-text-no-invalidate", "urwid/widget/text.py", "Text.set_text", "        self._invalidate()\n", "", "INV|widget.text.Text.set_text"),
    Mut("columns-focus-callback-bypasses-memo", "urwid/widget/columns.py", "Columns.__init__", "self._contents.set_focus_changed_callback(lambda f: self._invalidate())", "self._contents.set_focus_changed_callback(lambda f: super(Columns, self)._invalidate())", "INV-BYPASS|"),
    Mut("pad-bottom-shared-shards", "urwid/canvas.py", "CompositeCanvas.pad_trim_top_bottom", "            if orig_shards is self.shards:\n                self.shards = self.shards.copy()\n", "", "FRESHLIST|canvas.CompositeCanvas.pad_trim_top_bottom"),
    Mut("padding-zero-cols-no-depends", "urwid/widget/padding.py", "Padding.render", "            canv = CompositeCanvas(canv)\n            canv.set_depends([self._original_widget])\n            return canv", "            return CompositeCanvas(canv)", "DEPENDS|widget.padding.Padding.render"),
    Mut("trim-unguarded", "urwid/canvas.py", "CompositeCanvas.trim_end", "        if self.widget_info:\n            raise self._finalized_error\n", "", "GUARD|"),
    Mut("filler-mutates-rendered", "urwid/widget/filler.py", "Filler.render", "        canv = CompositeCanvas(canv)\n", "", "CANV|widget.filler.Filler.render"),
    Mut("cache-rows-ignores-focus-mask", "urwid/widget/widget.py", "cache_widget_rows", "        focus = focus and not ignore_focus\n", "", "SIB|"),
    Mut("edit-render-flag-without-invalidate", "urwid/widget/edit.py", "Edit.render", "        if self._shift_view_to_cursor != bool(focus):\n            # The inherited Text rendering is cached without regard to focus: drop it when the view shift changes\n            self._shift_view_to_cursor = bool(focus)\n            self._invalidate()\n", "        self._shift_view_to_cursor = bool(focus)\n", "INV-LAYER|widget.edit.Edit.render"),
    Mut("edit-cursor-coords-flag-without-invalidate", "urwid/widget/edit.py", "Edit.get_cursor_coords", "        if not self._shift_view_to_cursor:\n            self._shift_view_to_cursor = True\n            self._invalidate()\n", "        self._shift_view_to_cursor = True\n", "INV-LAYER|widget.edit.Edit.get_cursor_coords"),
    Mut("cleanup-drops-deps-early", "urwid/canvas.py", "CanvasCache.cleanup", "        if not sizes:\n            with contextlib.suppress(KeyError):\n                del cls._widgets[widget]\n", "        cls._deps.pop(widget, None)\n        if not sizes:\n            with contextlib.suppress(KeyError):\n                del cls._widgets[widget]\n", "PAIR|canvas.CanvasCache.cleanup"),
    Mut("twin-cleanup-pop-form", "urwid/canvas.py", "CanvasCache.cleanup", "            with contextlib.suppress(KeyError):\n                del cls._widgets[widget]\n", "            cls._widgets.pop(widget, None)\n", twin=True),
    Mut("scrollable-position-moved-without-invalidate", "urwid/widget/scrollable.py", "Scrollable._adjust_trim_top", "        if self._trim_top != old_trim_top:\n            # canvases cached for other sizes show the old position\n            self._invalidate()\n", "", "INV-RENDER|widget.scrollable.Scrollable._adjust_trim_top"),
    Mut("scrollable-reset-without-invalidate", "urwid/widget/scrollable.py", "Scrollable._adjust_trim_top", "            if self._trim_top != old_trim_top:\n                # canvases cached for other sizes show the old position\n                self._invalidate()\n            return", "            return", "INV-RENDER|widget.scrollable.Scrollable._adjust_trim_top"),
    Mut("listbox-focus-complete-without-invalidate", "urwid/widget/listbox.py", "ListBox._set_focus_complete", "        (maxcol, maxrow) = size\n        self._invalidate()\n", "        (maxcol, maxrow) = size\n", "INV-RENDER|widget.listbox.ListBox"),
    Mut("pile-hidden-item-no-depends", "urwid/widget/pile.py", "Pile.render", "            out.set_depends([w for w, _ in self.contents])\n", "            pass\n", "HIDDEN-DEP|widget.pile.Pile.render"),
    Mut("columns-hidden-column-no-depends", "urwid/widget/columns.py", "Columns.render", "            canvas.set_depends([w for w, _ in self.contents])\n", "            pass\n", "HIDDEN-DEP|widget.columns.Columns.render"),
    Mut("frame-depends-body-only", "urwid/widget/frame.py", "Frame.render", "canvas.set_depends([w for w in (self.header, self.body, self.footer) if w is not None])", "canvas.set_depends([self.body])", "HIDDEN-DEP|widget.frame.Frame.render"),
    Mut("overlay-empty-bottom-no-depends", "urwid/widget/overlay.py", "Overlay.render", "            canv.set_depends([self.top_w, self.bottom_w])\n", "", "HIDDEN-DEP|widget.overlay.Overlay.render"),
    Mut("twin-pile-depends-list-form", "urwid/widget/pile.py", "Pile.render", "            out.set_depends([w for w, _ in self.contents])\n", "            out.set_depends([item[0] for item in self.contents])\n", twin=True),
    Mut("columns-memo-with-pack-columns", "urwid/widget/columns.py", "Columns.column_widths", "if maxcol == self._cache_maxcol and not any(t == WHSettings.PACK for w, (t, n, b) in self.contents):", "if maxcol == self._cache_maxcol:", "MEMO|widget.columns.Columns.column_widths"),
    Mut("twin-pad-copy-slice", "urwid/canvas.py", "CompositeCanvas.pad_trim_top_bottom", "self.shards = self.shards.copy()", "self.shards = self.shards[:]", twin=True),
]
