"""Confirmed rule exceptions: one named symbol each, with the reason read from the code.
No pattern- or file-wide suppressions live here."""

INV_EXCEPTIONS = {
    "widget.scrollable.Scrollable.keypress:_old_cursor_coords": (
        "edge detector, not display state: render consults it only when it differs from the child's current cursor, "
        "i.e. only after the child itself changed (and invalidated); a stale equal value has no effect"
    ),
    "vterm.Terminal.respond:response_buffer": (
        "output queue towards the pty, flushed by feed()/render; it is not part of the canvas content"
    ),
}

CANV_EXCEPTIONS = {
    "display.curses._test.run:r.coords =": "manual curses test harness operating on its own FakeRender stand-in, not on a widget canvas",
    "display.curses._test.run:r.cursor =": "manual curses test harness operating on its own FakeRender stand-in, not on a widget canvas",
}

# Origin-level infeasible raises for the EXC engine: "function:Exc:construct" -> dominating fact.
C05_INFEASIBLE = {
    "display.escape.KeyqueueTrie.read_sgrmouse_info:ValueError:raise ValueError(f'Unknown mouse action: {action!r}')": (
        "the scan loop only breaks (found_m) on 'M' or 'm', so value[-1] is one of the two letters tested before this else-branch"
    ),
}
