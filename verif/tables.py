"""Confirmed rule exceptions: one named symbol each, with the reason read from the code.
No pattern- or file-wide suppressions live here."""

INV_EXCEPTIONS = {
    "widget.scrollable.Scrollable.keypress:_old_cursor_coords": (
        "edge detector, not display state: render consults it only when it differs from the child's current cursor, "
        "i.e. only after the child itself changed (and invalidated); a stale equal value has no effect"
    ),
    "vterm.Terminal.respond:response_buffer": (
        "output queue towards the pty, flushed by feed()/render; it is not part of the canvas content"
    ),
}

CANV_EXCEPTIONS = {
    "display.curses._test.run:.coords =": "manual curses test harness operating on its own FakeRender stand-in, not on a widget canvas",
    "display.curses._test.run:.cursor =": "manual curses test harness operating on its own FakeRender stand-in, not on a widget canvas",
}

# Origin-level infeasible raises for the EXC engine: "function:Exc:construct" -> dominating fact.
C05_INFEASIBLE = {
    "display.escape.KeyqueueTrie.read_sgrmouse_info:ValueError:raise ValueError(f'Unknown mouse action: {action!r}')": (
        "the scan loop only breaks (found_m) on 'M' or 'm', so value[-1] is one of the two letters tested before this else-branch"
    ),
}

_RANGE = (
    "defensive range check on a colour number that is either the 24-bit field AttrSpec stored from a parser result "
    "(parsers return None outside 0..255 / 0..87) or a parser result itself; reachability depends on values, the "
    "bounds themselves are cross-checked between the 256/88 twins by C18.2"
)
C18_INFEASIBLE = {
    "display.common._color_desc_256:ValueError:raise ValueError(num)": _RANGE,
    "display.common._color_desc_88:ValueError:raise ValueError(num)": _RANGE,
    "display.common.AttrSpec.get_rgb_values:ValueError:raise ValueError(f'Invalid AttrSpec _value: {self.foreground_number!r}')": _RANGE,
    "display.common.AttrSpec.get_rgb_values:ValueError:raise ValueError(f'Invalid AttrSpec _value: {self.background_number!r}')": _RANGE,
    "display.common.AttrSpec.get_rgb_values:ValueError:int(x, 16)": "x ranges over slices of a string produced by the format spec :06x, always hexadecimal",
}
C18_BOUNDARY_OK = {}
C18_SIB_EXCEPTIONS = {
    "_parse_color_256~_parse_color_88:test:len(desc) == N": (
        "the 88-colour parser additionally accepts #rrggbb by sampling its digits; at 256 colours the caller converts through _true_to_256 first"
    ),
}

C15_INFEASIBLE = {
    "vterm.TermCanvas.parse_csi:KeyError:CSI_COMMANDS[char]": "parse_escape calls parse_csi(char) only under `char in CSI_COMMANDS` (verified by C15.2)",
    "vterm.TermCanvas.parse_csi:KeyError:CSI_COMMANDS[cmd_.alias]": "alias targets are existing entries of the same literal table (verified by C15.2)",
    "vterm.TermCanvas.parse_csi:KeyError:CSI_COMMANDS[CSIAlias(*cmd_).alias]": "alias targets are existing entries of the same literal table (verified by C15.2)",
    "vterm.TermCharset.apply_mapping:UnicodeEncodeError:ALT_DEC_SPECIAL_CHARS[dec_pos].encode('cp437')": "ALT_DEC_SPECIAL_CHARS is a constant of printable ASCII characters, all encodable in cp437",
}
C15_BOUNDARY_OK = {
    f"vterm.TermCanvas.{e}:AttrSpecError:vterm.TermCanvas.reverse_attrspec": (
        "reverse_attrspec re-parses the description produced by AttrSpec.foreground of an already valid spec at the same colour depth "
        "(or the constant 'default'); that round trip is C18's subject"
    )
    for e in ("addstr", "addbyte", "resize")
}

C13_SIB_EXCEPTIONS = {}

# DIM: legitimate mixes of columns and rows (areas, aspect ratios) - none needed on the pinned tree.
C01_DIM_EXCEPTIONS = {}

C09_DIM_EXCEPTIONS = {}
# Size-agreement exceptions: "<function>:<receiver>.<method>" -> {"when": substring of the configuration or None, "reason": ...}
_CLIP = {
    "when": "self._width_type=WHSettings.CLIP",
    "reason": "width='clip': render() draws the child at its packed size (); the other entry points pass size[0]-left-right, which padding_values() "
    "makes numerically equal to that packed width (left+right = size[0] - packed width), so the flow child is asked about the same geometry",
}
C09_SIZE_EXCEPTIONS = {
    f"widget.padding.Padding.{m}:self._original_widget.{m}": _CLIP for m in ("keypress", "mouse_event", "get_cursor_coords", "move_cursor_to_coords", "get_pref_col")
}

# C16: list mutators that need no focus override in MonitoredFocusList, one reason each.
C16_FOCUS_EXEMPT = {}  # __iadd__ used to be exempt; it has to go through extend() so that the validate callback sees the new items
# C16.2 early returns without a list call, and overrides that compute the focus after the call.
C16_ORDER_AFTER = {
    "computed_after": ("reverse", "sort"),  # the new index depends on the resulting order: read _focus/value before, store after
}

# C08.4: keypress methods outside the return discipline, one reason each.
C08_RET_EXEMPT = {
    "widget.widget.WidgetProto.keypress": "typing.Protocol stub without a body",
}

# FOCUS-FWD: calls that legitimately leave the focus flag out, "<caller>:<call>" -> reason.
FWD_EXCEPTIONS = {
    "widget.bar_graph.BarGraph.render:Text(widget_list).render((maxcol,))": "a freshly built Text used as a row painter; Text ignores focus (ignore_focus = True)",
    "widget.bar_graph.GraphVScale.render:t.render((maxcol,))": "a freshly built Text used as a label painter; Text ignores focus",
    "widget.progress_bar.ProgressBar.render:Text(self.get_text(), self.text_align, WrapMode.CLIP).render((maxcol,))": "a freshly built Text used as a painter; Text ignores focus",
    "widget.big_text.BigText.render:self.font.render(ch)": "Font.render(char) is not a widget render: it takes a character and has no focus parameter (resolved only by method name)",
    "widget.listbox.ListBox.render:widget.render((maxcol,))": "the rows above and below the focus row are drawn unfocused by design; only the focus widget gets the flag",
    "widget.overlay.Overlay.render:self.bottom_w.render(real_size)": "the bottom widget of an Overlay never has the focus (the top widget has it) - documented behaviour",
    "widget.scrollable.ScrollBar.mouse_event:ow.get_scrollpos(ow_size)": "reached only under hasattr(ow, 'set_scrollpos'), i.e. for a Scrollable, whose get_scrollpos() ignores both arguments",
}

# ACCUM: running positions that must advance in every continuing iteration.  "<function>:<update statement>" ->
# (properties that include the instance, why the position matters).
ACCUM_TABLE = {
    "canvas.shards_trim_sides:col = next_col": (("C02", "C01"), "the column of every later cview of the shard is off, so side trims / overlays clip the wrong part"),
    "canvas.CanvasJoin:col += composite_canvas.cols()": (("C02",), "children joined to the right are positioned (coords, shortcuts, children offsets) from this column"),
    "canvas.CanvasCombine:row += canv.rows()": (("C02",), "children stacked below are positioned (coords, shortcuts, children offsets) from this row"),
    "canvas.shards_trim_rows:done_rows += num_rows": (("C02",), "later shards are kept / trimmed by the rows already passed"),
    "widget.columns.Columns.column_widths:shared += width_ + self.dividechars": (("C19", "C01"), "every column passed over was charged its width plus a divider in the first pass; a column left behind without the refund keeps the budget negative and the focus column is dropped although it fits"),
    "widget.columns.Columns.column_widths:shared -= static_w + self.dividechars": (("C19",), "the space left for weighted columns is what remains after every listed column was charged"),
    "widget.pile.Pile.move_cursor_to_coords:wrow += r": (("C09",), "the row handed to the child is relative to the rows of all items above it"),
    "widget.pile.Pile.mouse_event:wrow += height": (("C09",), "the row handed to the child is relative to the rows of all items above it"),
    "widget.listbox.ListBox.mouse_event:wrow += w_rows": (("C09",), "the row handed to the child is relative to the rows of all visible items above it"),
    "text_layout.calc_coords:y += 1": (("C10", "C03"), "the cursor row is the number of layout lines passed"),
    "text_layout.calc_coords:x += s.sc": (("C10", "C03"), "the cursor column is the width of the segments passed on the line"),
    "text_layout.calc_line_pos:current_sc += s.sc": (("C10",), "the preferred column is matched against the columns passed on the line"),
    "text_layout.line_width:sc += s[0]": (("C03",), "the width of a line is the sum over all its segments"),
    "util.rle_get_at:x += run": (("C02", "C17"), "the attribute at a position is found by the run lengths passed"),
    "util.rle_subseg:x += run": (("C02", "C17"), "the attribute runs of a text slice are cut by the run lengths passed"),
    "display._raw_display_base.Screen.draw_screen:y += 1": (("C04",), "rows that are skipped because they are unchanged still count: the cursor addressing of every later row uses y"),
}

# OFFSTEP: offset +- constant that is not a text position used for slicing.
OFFSTEP_EXCEPTIONS = {
    "text_layout.LayoutSegment.subseg:lines.append((1, spos - 1))": "a (columns, offset) two-tuple is padding with a cursor hint: the offset is only compared with cursor positions (calc_coords / calc_pos), never used to slice the text",
}

# OPTCALL: optional-protocol calls whose hasattr test is made on an alias of the receiver.
_FRAME_FOCUS = "guarded by `hasattr(self.focus, 'get_cursor_coords')` above: self.focus is exactly the part (header / body / footer) selected by the focus_position the branch tests"
OPTCALL_EXCEPTIONS = {
    "widget.frame.Frame.get_cursor_coords:self.header.get_cursor_coords((maxcol,))": _FRAME_FOCUS,
    "widget.frame.Frame.get_cursor_coords:self.body.get_cursor_coords((maxcol, maxrow - hrows - frows))": _FRAME_FOCUS,
    "widget.frame.Frame.get_cursor_coords:self.footer.get_cursor_coords((maxcol,))": _FRAME_FOCUS,
}

# LOOPFRESH: locals that describe the current item of a loop and must be defined anew in every iteration.
# "<function>" -> (properties, variables, why it matters)
LOOPFRESH_TABLE = {'canvas.CompositeCanvas.content_delta': (('C02', 'C04'),
                                          (('row', ('$ = []', '$ = shard_body_row(_)', 'len($) != 1 or not isinstance($[0], int)', 'yield $')),),
                                          "the 'whole shard unchanged' memo of one shard would mark every later shard as unchanged"),
 'canvas.TextCanvas.content': (('C02', 'C01'),
                               (('row', ('$ = []', '$.append((_, _, _[_:_ + _]))', 'yield $')), ('i', ('$ += _', '$ = 0', '_.append((_, _, _[$:$ + _]))'))),
                               'a row would start with the runs of the previous row'),
 'canvas.shards_trim_sides': (('C02',),
                              (('new_cviews', ('$ = []', '$.append(_)', '_.append((_, $))', 'not $')),
                               ('col',
                                ('$ < _',
                                 '$ = 0',
                                 '$ = _',
                                 '_ = $ + _',
                                 '_ = cview_trim_cols(_, _ - $)',
                                 '_ = cview_trim_left(_, _ - $)',
                                 '_ or _ <= _ or $ >= _'))),
                              "each shard's cviews are clipped by columns counted from that shard's left edge"),
 'canvas.shards_trim_rows': (('C02',),
                             (('new_cviews', ('$ = []', '$.append(_)', '$.append(cview_trim_rows(_, _ - _))', '_.append((_ - _, $))', '_.append((_, $))')),),
                             'a shard would inherit the cviews of the shard above'),
 'canvas.shards_join': (('C02',),
                        (('new_cviews', ('$ = []', '$.extend(_)', '_.append((_, $))')),),
                        'a joined shard would inherit the cviews of the shard above'),
 'canvas.apply_text_layout': (('C03', 'C17', 'C01'),
                              (('line', ('$ = []', '$.append(_)', "$.append(b''.rjust(_.sc))", "_.append(b''.join($))")),
                               ('linea', ('$ = []', '$.append((None, _.sc))', '_.append($)')),
                               ('linec', ('$ = []', '$.append((None, _.sc))', '_.append($)', 'rle_append_modify($, (None, _.sc))', 'rle_join_modify($, _)'))),
                              'text, attribute and charset runs of a line would start with those of the previous line'),
 'text_layout.StandardTextLayout._calculate_trimmed_segments': (('C03', 'C01'),
                                                                (('line', ('$ += [(_, _)]', '$ += [(_, _, _)]', '$ = []', '_.append($)')),
                                                                 ('pad_right',
                                                                  ('$ = 0',
                                                                   '_ += [($, _)]',
                                                                   '_ = _ - _ - $',
                                                                   '_, _, _, $ = calc_trim_text(_, _, _, 0, _ - _)')),
                                                                 ('trimmed', ('$', '$ = False', '$ = True')),
                                                                 ('end_off',
                                                                  ('$ = _',
                                                                   '_ != $ and _ > 0',
                                                                   '_ += [(_, $)]',
                                                                   '_ += [(_, $, _)]',
                                                                   '_ += [(_, _, $)]',
                                                                   '_, $, _, _ = calc_trim_text(_, _, _, 0, _ - _)'))),
                                                                'the padding / ellipsis decision of an earlier, trimmed line would be applied to a later line '
                                                                'that fits'),
 'text_layout.calc_coords': (('C10', 'C03'),
                             (('x', ('$ += _.sc', '$ += calc_width(_, _.offs, _)', '$ = 0', '_ = (_, ($, _))', 'return ($, _)')),),
                             'the column of a position is counted from the start of its own line'),
 'display.html_fragment.HtmlGenerator.draw_screen': (('C04',),
                                                     (('col', ('$ + _ > _', '$ += _', '$ = 0', '_ == _ and $ <= _', '_.append(html_span(_, _, _ - $))')),),
                                                     "the cursor column is matched against the column within the cursor's row"),
 'display._raw_display_base.Screen.draw_screen': (('C04',),
                                                  (('whitespace_at_end', ('$', '$ = False', '$ = True')),),
                                                  'the erase-to-end-of-line shortcut of one row would be applied to the next')}

# NONE-SENTINEL: attributes whose non-None values are always truthy (truthiness test == identity test).
SENTINEL_EXCEPTIONS = {
    "ListBox.set_focus_valign_pending": "None or a two-element tuple (valign type, amount): a non-empty tuple is always truthy",
}


# INV-RENDER (C06.9): render-path stores to state render() reads that need no _invalidate(), one line of reason each.
_TERMINAL_LIVE = "Terminal.render() returns its one live, mutable TermCanvas object (self.term): every cache entry is that same object, there is no older rendering to go stale; output arriving from the pty invalidates explicitly"
INV_RENDER_EXCEPTIONS = {
    "widget.listbox.ListBox.calculate_visible:_zero_row_items": "scratch result of this very call: calculate_visible() rewrites it before render() reads it in the same rendering, it is never read across calls and decides nothing but the dependency list of the canvas being built (fix 00389c3)",
    "vterm.Terminal.terminate:terminated": _TERMINAL_LIVE,
    "vterm.Terminal.change_focus:old_tios": "saved tty settings of the hosting terminal, not part of the canvas",
    "vterm.Terminal.flush_responses:response_buffer": "output queue towards the pty, not part of the canvas",
    "vterm.Terminal.touch_term:term": _TERMINAL_LIVE,
    "vterm.Terminal.touch_term:width": _TERMINAL_LIVE,
    "vterm.Terminal.touch_term:height": _TERMINAL_LIVE,
    "vterm.Terminal.spawn:master": "pty file descriptor, not part of the canvas",
    "vterm.Terminal.spawn:pid": "child process id, not part of the canvas",
    "widget.popup.PopUpTarget._update_overlay:_pop_up": "memo of the pop-up widget found in the child's canvas during this very call; a different pop-up means the child changed, which invalidates the child and - through the dependency cascade - this widget",
    "widget.popup.PopUpTarget._update_overlay:_current_widget": "rebuilt from the child's canvas in the same call (see _pop_up)",
    "widget.scrollable.Scrollable._adjust_trim_top:_scroll_action": "one-shot command: set by keypress / mouse_event together with _invalidate() (C06.1a), reset to the neutral None when consumed; renderings after the reset do not depend on the consumed value",
    "widget.scrollable.Scrollable._adjust_trim_top:_old_cursor_coords": "edge detector reset to the neutral None when consumed (see INV_EXCEPTIONS)",
}
