"""Both-ways self-test of the rules (thorough tier).

For each property the module ``verif.props.<id>`` may define ``MUTANTS``: a list of ``Mut`` —
source edits located *by shape in the current tree* (a text fragment inside a named function).
A mutant breaks exactly one rule instance and still compiles; a benign twin is a
behaviour-preserving rewrite.  Each variant is analysed **statically** (the edited source is
handed to the project model as an in-memory overlay; nothing is executed): the rule must name
the broken instance on the mutant (a new finding whose key contains one of ``expect``) and stay
silent on the twin.  Seeded changes kept under /verif/seeded/<name>/ (patch.diff + meta.json with
``detected_by``) are replayed the same way on a scratch copy outside /repo and /verif.

A variant whose anchor text is no longer present (because /repo was edited) is *skipped*; only a
variant that applies, compiles and is judged wrongly makes the self-test fail (exit 2: the
machinery is broken, nothing about urwid is reported)."""

from __future__ import annotations

import importlib
import json
import multiprocessing
import os
import shutil
import subprocess
import tempfile
import traceback

from . import model
from .model import AnalysisError

HERE = os.path.dirname(os.path.dirname(os.path.abspath(__file__)))


class Mut:
    def __init__(self, name, file, func, old, new, expect=(), twin=False, nth=0, error_ok=False, note="", also=()):
        self.name = name
        self.file = file  # path relative to the repo root, e.g. "urwid/signals.py"
        self.func = func  # qualified function (short form accepted by Project.func) or None = whole file
        self.old = old
        self.new = new
        self.expect = [expect] if isinstance(expect, str) else list(expect)
        self.twin = twin
        self.nth = nth
        self.error_ok = error_ok  # an ANALYSIS-ERROR (anchor vanished / floor) counts as detection
        self.note = note
        self.also = list(also)  # further (old, new) replacements inside the same function, applied after the first


def _segment(project, m: Mut):
    """(start, end) character offsets of the function's source in the module text."""
    mod = next((x for x in project.modules.values() if x.relpath == m.file), None)
    if mod is None:
        return None, None, None
    src = mod.src
    if m.func is None:
        return src, 0, len(src)
    try:
        fi = project.func(m.func)
    except AnalysisError:
        return src, None, None
    if fi.module is not mod:
        return src, None, None
    lines = src.splitlines(keepends=True)
    first = min([fi.node.lineno] + [d.lineno for d in getattr(fi.node, "decorator_list", [])])
    start = sum(len(x) for x in lines[: first - 1])
    end = sum(len(x) for x in lines[: fi.node.end_lineno])
    return src, start, end


def apply(project, m: Mut):
    """Edited module source, or None when the anchor is not present."""
    src, a, b = _segment(project, m)
    if src is None or a is None:
        return None
    seg = src[a:b]
    pos = -1
    for _ in range(m.nth + 1):
        pos = seg.find(m.old, pos + 1)
        if pos < 0:
            return None
    if m.nth == 0 and seg.find(m.old, pos + 1) >= 0 and not getattr(m, "first_ok", False):
        # ambiguous anchor: refuse rather than edit the wrong place
        return None
    new = src[: a + pos] + m.new + src[a + pos + len(m.old) :]
    for old2, new2 in getattr(m, "also", ()):
        if new.count(old2) != 1:
            return None
        new = new.replace(old2, new2)
    return new


def _keys(pid, project):
    from . import check

    _project, _mod, results = check.run_property(pid, "quick", project=project)
    viol, kn, _info = check.classify(pid, results)
    return {f.key: str(f) for f in viol}, {f.key for f in kn}


def _eval_overlay(args):
    pid, root, file, newsrc = args
    try:
        try:
            compile(newsrc, file, "exec")
        except SyntaxError as e:
            return ("nocompile", str(e))
        proj = model.Project(root, overlay={file: newsrc})
        v, _k = _keys(pid, proj)
        return ("ok", v)
    except AnalysisError as e:
        return ("error", str(e))
    except Exception:  # noqa: BLE001
        return ("crash", traceback.format_exc()[-600:])


def _eval_patch(args):
    pid, root, patch = args
    tmp = tempfile.mkdtemp(prefix="verif_seed_")
    try:
        shutil.copytree(os.path.join(root, "urwid"), os.path.join(tmp, "urwid"), ignore=shutil.ignore_patterns("__pycache__"))
        r = subprocess.run(["git", "apply", "--whitespace=nowarn", patch], cwd=tmp, capture_output=True, text=True)
        if r.returncode != 0:
            return ("skip", r.stderr[-200:])
        r = subprocess.run(["/venv/bin/python", "-m", "compileall", "-q", "urwid"], cwd=tmp, capture_output=True, text=True)
        if r.returncode != 0:
            return ("nocompile", r.stdout[-200:])
        proj = model.Project(tmp)
        v, _k = _keys(pid, proj)
        # report paths relative to the scratch root like the real run does
        return ("ok", v)
    except AnalysisError as e:
        return ("error", str(e))
    except Exception:  # noqa: BLE001
        return ("crash", traceback.format_exc()[-600:])
    finally:
        shutil.rmtree(tmp, ignore_errors=True)


def seeded_for(pid):
    out = []
    d = os.path.join(HERE, "seeded")
    if not os.path.isdir(d):
        return out
    for name in sorted(os.listdir(d)):
        mp = os.path.join(d, name, "meta.json")
        pp = os.path.join(d, name, "patch.diff")
        if not (os.path.exists(mp) and os.path.exists(pp)):
            continue
        with open(mp, encoding="utf-8") as fh:
            meta = json.load(fh)
        exp = (meta.get("detected_by") or {}).get(pid)
        if exp:
            out.append((name, pp, exp))
    return out


def run_for(pid: str, root: str | None = None, jobs: int = 16):
    project = model.load(root)
    root = project.root
    mod = importlib.import_module(f"verif.props.{pid.lower()}")
    muts: list[Mut] = list(getattr(mod, "MUTANTS", []))
    try:
        base_v, base_k = _keys(pid, project)
    except AnalysisError as e:
        return {"mutants": 0, "applied": 0, "killed": 0, "twins": 0, "twins_silent": 0, "skipped": 0, "seeded": 0, "seeded_detected": 0, "details": [],
                "failures": [f"the check cannot analyse the unchanged tree: {e}"]}
    base = set(base_v) | base_k
    res = {"mutants": 0, "applied": 0, "killed": 0, "twins": 0, "twins_silent": 0, "skipped": 0, "seeded": 0, "seeded_detected": 0, "failures": [], "details": []}
    tasks, meta = [], []
    for m in muts:
        if m.twin:
            res["twins"] += 1
        else:
            res["mutants"] += 1
        new = apply(project, m)
        if new is None:
            res["skipped"] += 1
            res["details"].append({"name": m.name, "status": "skipped (anchor text not found in the current tree)"})
            if m.twin:
                res["twins"] -= 1
            else:
                res["mutants"] -= 1
            continue
        tasks.append((pid, root, m.file, new))
        meta.append(m)
    seeds = seeded_for(pid)
    with multiprocessing.get_context("fork").Pool(min(jobs, max(1, len(tasks) + len(seeds))), maxtasksperchild=1) as pool:
        r1 = pool.map_async(_eval_overlay, tasks, chunksize=1)
        r2 = pool.map_async(_eval_patch, [(pid, root, pp) for _n, pp, _e in seeds], chunksize=1)
        out1 = r1.get()
        out2 = r2.get()
    for m, (status, payload) in zip(meta, out1):
        if status == "nocompile":
            res["failures"].append(f"{m.name}: the edited source does not compile ({payload}) - the self-test table is wrong")
            continue
        if status == "crash":
            res["failures"].append(f"{m.name}: the analyser crashed on the variant: {payload}")
            continue
        if m.twin:
            if status == "ok" and not (set(payload) - base):
                res["twins_silent"] += 1
                res["details"].append({"name": m.name, "status": "twin silent"})
            else:
                what = payload if status == "error" else "; ".join(sorted(set(payload) - base))
                res["failures"].append(f"benign twin {m.name} is reported: {what}")
            continue
        res["applied"] += 1
        if status == "error":
            if m.error_ok:
                res["killed"] += 1
                res["details"].append({"name": m.name, "status": "detected (fail-closed ANALYSIS-ERROR)", "by": payload[:160]})
            else:
                res["failures"].append(f"mutant {m.name}: expected a finding matching {m.expect} but the analysis stopped with: {payload[:200]}")
            continue
        newk = sorted(set(payload) - base)
        hit = [k for k in newk if any(e in k for e in m.expect)] if m.expect else newk
        if hit:
            res["killed"] += 1
            res["details"].append({"name": m.name, "status": "detected", "by": hit[0][:200]})
        else:
            res["failures"].append(f"mutant {m.name} NOT detected (expected a finding matching {m.expect}; new findings: {newk[:3]})")
    for (name, _pp, exp), (status, payload) in zip(seeds, out2):
        if status == "skip":
            res["skipped"] += 1
            res["details"].append({"name": f"seeded/{name}", "status": "skipped (patch no longer applies to the current tree)"})
            continue
        res["seeded"] += 1
        if status in ("nocompile", "crash"):
            res["failures"].append(f"seeded/{name}: {status}: {payload}")
            continue
        if status == "error":
            if "ERROR" in exp:
                res["seeded_detected"] += 1
            else:
                res["failures"].append(f"seeded/{name}: analysis stopped with {payload[:200]}")
            continue
        newk = sorted(set(payload) - base)
        hit = [k for k in newk if any(e in k for e in exp)]
        if hit:
            res["seeded_detected"] += 1
            res["details"].append({"name": f"seeded/{name}", "status": "detected", "by": hit[0][:200]})
        else:
            res["failures"].append(f"seeded/{name} NOT detected any more (expected {exp}; new findings: {newk[:3]})")
    res["applied"] += 0
    return res


def main(argv=None):
    import sys

    argv = argv or sys.argv[1:]
    rc = 0
    for pid in argv:
        r = run_for(pid.upper())
        print(f"{pid}: mutants {r['killed']}/{r['applied']} twins {r['twins_silent']}/{r['twins']} seeded {r['seeded_detected']}/{r['seeded']} skipped {r['skipped']}")
        for d in r["details"]:
            print("   ", d["name"], "-", d["status"], "-", d.get("by", ""))
        for f in r["failures"]:
            print("   FAIL", f)
            rc = 2
    return rc


if __name__ == "__main__":
    import sys

    sys.exit(main())
