"""setup_cmd: nothing to build; verify the analyser imports, the project parses and the tables are sane."""
import importlib
import json
import os
import sys

from . import model, registry


def main():
    p = model.load()
    print(f"selfcheck: parsed {len(p.modules)} modules, {len(p.functions)} functions, {len(p.classes)} classes from {p.root}")
    for pid in registry.CLAIMED:
        importlib.import_module(f"verif.props.{pid.lower()}")
    here = os.path.dirname(os.path.dirname(os.path.abspath(__file__)))
    with open(os.path.join(here, "known_findings.json")) as fh:
        kf = json.load(fh)
    for k in kf["findings"]:
        assert k["status"] in ("known", "fixed") and k["property"] and k["key"], k
    print(f"selfcheck: {len(registry.CLAIMED)} property modules import; {len(kf['findings'])} known-findings entries well-formed")
    return 0


if __name__ == "__main__":
    sys.exit(main())
