"""Which properties are claimed, with the text that goes into MANIFEST.json."""

_NOTE = (
    "Trusted base: CPython's ast parser and this repository-specific analyser (model/CFG/rules under /verif/verif). "
    "Assumes no monkey-patching or out-of-package subclasses; call resolution is name/MRO based. "
    "Only the structural clauses named in the evidence file's coverage.explanation are decided; the value-dependent "
    "remainder of the property (stated under coverage.not_decided) is NOT decided."
)

def _entry(text, ref, tech):
    return {"level_text": text, "design_ref": ref, "level_note": _NOTE, "technique": tech}


CLAIMED = {
    "C05": _entry(
        "Static analysis decides the structural conditions of fragmentation-invariant decoding: which exceptions can escape the decoder (interprocedural may-escape sets), "
        "strict left-to-right consumption at every return, MoreInputRequired at every input-too-short test, the carry-over/timeout protocol in Screen.parse_input, and the "
        "trie table's special values and prefix-freeness. Event names and equality of event lists for all cuts are value properties and are not decided (level 'other').",
        "DESIGN.md section 3, C05; engines E3, E10, E6, E9",
        "static analysis: interprocedural exception-escape, CFG must-pass-through on short-input tests, constant folding of the key table",
    ),
    "C12": _entry(
        "Static analysis decides on all control-flow paths (incl. exception edges) that MainLoop._run reaches screen.stop() after the event loop ran and re-raises unchanged, that every "
        "terminal mode/setting acquired in Screen._start has its inverse in Screen._stop (inverse-ness by constant folding of the escape strings), that callbacks handed to "
        "exception-swallowing scheduler APIs are wrapped by the loop's capture, and the filter -> widget -> unhandled_input order. Actual terminal state and delivery timing are not decided (level 'other').",
        "DESIGN.md section 3, C12; engines E6, E5",
        "static analysis: CFG must-pass-through with exception/finally edges, acquire/release pairing with constant folding, abstract closure evaluation of scheduled callbacks",
    ),
    "C13": _entry(
        "Static analysis decides, per bundled event loop, capture coverage of scheduled callbacks (abstract evaluation of closures/decorators against a per-loop table of swallowing APIs), "
        "snapshot iteration of idle callbacks, idle arming after alarm/watch callbacks, handle forgetting, boolean return discipline of the remove_* methods and agreement of the select/zmq twins. "
        "Timing and ordering of alarms are scheduler semantics and are not decided (level 'other').",
        "DESIGN.md section 3, C13; engines E5, E4, E6, E12, E8",
        "static analysis: abstract closure evaluation (WRAP), iterate-a-snapshot rule, CFG path rules, sibling comparison",
    ),
    "C14": _entry(
        "Static analysis decides snapshot iteration in emit, absence of strong captures in the weak-reference callback and handler records, error discipline of connect/disconnect, "
        "identity-with-None liveness tests of weak arguments and totality of the dispatch loop. Call/argument order for all histories and GC timing are not decided (level 'other').",
        "DESIGN.md section 3, C14; engines E4, E12, E3, E6",
        "static analysis: iterate-a-snapshot rule, closure free-variable analysis, exception-escape, CFG dominance",
    ),
    "C15": _entry(
        "Static analysis decides the emulator's error discipline (no modelled exception escapes addstr/addbyte/resize, CSI dispatch resolved through the table), "
        "the CSI table's internal consistency, the clamped single-writer discipline of cursor and scrolling region, shape-preserving pairing of grid edits, loop progress and container-kind misuse. "
        "Index-bounds safety of each cell access, VT100 fidelity and scrollback order are value/behaviour properties and are not decided (level 'other').",
        "DESIGN.md section 3, C15; engines E3, E9, E11, E6, E10",
        "static analysis: interprocedural exception-escape with table-resolved dispatch, table arity check, single-writer and pairing rules on the AST/CFG",
    ),
    "C18": _entry(
        "Static analysis decides error discipline of AttrSpec (only AttrSpecError escapes construction), agreement of the 256/88-colour sibling implementations and tables, "
        "hash/eq state agreement and the shape of the folded colour tables. Nearest-colour values and round-trip idempotence are value-level and not decided (level 'other').",
        "DESIGN.md section 3, C18; engines E3, E8, E9",
        "static analysis: exception-escape, sibling feature comparison, constant-folded table shape checks",
    ),
    "C06": {
        "level_text": "Static analysis decides, for every widget class and every control-flow path, the cache-discipline clauses C06 depends on: write=>invalidate, "
        "memo reset, monitored-list callbacks, finalised-canvas guards, fresh-receiver typestate, cache-key agreement of the render/rows wrappers, walker signal link and the "
        "store/invalidate cascade skeleton. These are necessary conditions (breaking one yields a stale canvas for some history); equality of cached and fresh rendering "
        "for all trees and histories is a value property and is not decided - hence level 'other', not 'proof'.",
        "design_ref": "DESIGN.md section 3, C06; engines E1, E7, E8, E6",
        "level_note": _NOTE,
        "technique": "static analysis: write=>invalidate dataflow over class MRO + CFG must-pass-through, canvas typestate, sibling comparison of cache wrappers",
    },
}

CLAIMED["C01"] = _entry(
    "Static analysis decides, for every widget class and path, the unit discipline of sizes (no screen-column quantity reaches a rows position or vice versa: DIM inference seeded from the "
    "widget API), container-kind misuse, that Text's reported rows and rendered lines come from the same layout with one canvas row per layout line, and that every pad-to-fill site pads the "
    "canvas by target minus its own rows()/cols(). These are necessary conditions of exact-size rendering; that composed canvases have the requested size for all trees, sizes and texts is a "
    "value property and is not decided (level 'other').",
    "DESIGN.md section 3, C01; engines E2, E12, E6",
    "static analysis: cols/rows unit inference, value-kind misuse, def-use expansion + linear canonical form of pad amounts, CFG per-iteration must-pass",
)

CLAIMED["C09"] = _entry(
    "Static analysis decides that the geometry views of each container/decoration agree structurally: unit discipline (DIM) in every geometry entry point; for every configuration "
    "(length of size x the attribute values the class branches on) the size handed to a child by keypress/mouse_event/get_cursor_coords/move_cursor_to_coords/get_pref_col is one render() "
    "hands to it; the offsets removed when forwarding mouse/cursor moves equal the offsets added to the child's cursor; a missing child cursor (None) is tested before unpacking. "
    "Agreement with the *rendered* cursor and the accumulating loops of Pile/Columns/ListBox are value-level and not decided (level 'other').",
    "DESIGN.md section 3, C09; engines E2, E8 (GEOM), E6",
    "static analysis: abstract interpretation over a finite predicate domain (size length x compared attribute values), reaching definitions, helper inlining, linear canonical forms; cols/rows unit inference",
)

CLAIMED["C16"] = _entry(
    "Static analysis decides the structural discipline of the monitored lists: every in-place mutator of list (enumerated from the interpreter's list type) is wrapped and, where it can move "
    "the focus, overridden with focus-compute -> single super() call with the same arguments -> focus store (no focus store before the list call, one wrapped call per path); the wrapper "
    "fires _modified() only after a successful call; the focus setter validates type and range, fires the focus-changed callback only on change and before the store, and pins _focus to 0 "
    "for the empty list; ranges over a slice triple are bounded by its stop. The index arithmetic itself and equality with a built-in list over all histories are not decided (level 'other').",
    "DESIGN.md section 3, C16; engines E12 (COVER), E6 (ORDER/PASS)",
    "static analysis: exhaustiveness against the interpreter's list type, CFG dominance/must-pass and call-count rules per override, guard dominance in the focus setter",
)

CLAIMED["C10"] = _entry(
    "Static analysis decides the editor's structural invariants: single writers of the text and of the cursor offset with the clamp to [0, len] at the store and a re-clamp after every "
    "replacement; the change -> store -> postchange order with the right arguments on every path; invalidation of cached canvases by every mutator and the return discipline of keypress; "
    "cursor moves and deletion bounds taken from move_prev_char/move_next_char (never arithmetic); the preferred column reset on every replacement; and a finite-alphabet membership test in "
    "the numeric variants' valid_char. Equality of text and offset with a reference editor over all key sequences is a value property and is not decided (level 'other').",
    "DESIGN.md section 3, C10; engines E11, E6, E1, E12",
    "static analysis: single-writer and sanitised-store rules via def-use expansion, CFG ordering/must-pass of signal emissions, write=>invalidate, return discipline",
)

CLAIMED["C20"] = _entry(
    "Static analysis decides the scroll position's clamp discipline (every store made while rendering is one of the enumerated clamped forms; ensure_bounds is max(0, min(total - height, .))), "
    "that the rows trimmed, the row translation of mouse events and the reported position all use the same attribute, the remainder-defined scrollbar parts and widths, that a key handled by "
    "the wrapped widget returns before any scroll action is set, that the thumb geometry only uses queries made with the size the child is drawn at, cols/rows and half-open bound discipline, "
    "and invalidation by the mutators. The numeric bounds of the position after all histories and thumb monotonicity are value properties and not decided (level 'other').",
    "DESIGN.md section 3, C20; engines E11, E6, E2, E1",
    "static analysis: sanitised-store (closed set of clamp forms with CFG dominators), def-use flow of size arguments into the thumb geometry, linear canonical forms, CFG ordering",
)

CLAIMED["C19"] = _entry(
    "Static analysis decides the structural idioms that make the partitions exact: unit discipline in the allocation helpers; the running-remainder apportionment (space and weight both "
    "decremented on every path, ascending order when shares are clamped from below); the remainder definition of the second margin in calculate_left_right_padding / "
    "calculate_top_bottom_filler with sum-preserving later adjustments; and GridFlow's wrap budget = drawn row width + one separator. Non-negativity, proportionality within one column, "
    "focus-column visibility and rounding are integer-range properties and are not decided (level 'other').",
    "DESIGN.md section 3, C19; engines E2, E6",
    "static analysis: pattern-anchored CFG path rules on the apportionment loops, linear/polynomial canonical forms for remainder and budget relations, cols/rows unit inference",
)

CLAIMED["C08"] = _entry(
    "Static analysis decides the structural half of the focus contract: every focus_position setter validates (range / membership test raising IndexError, TypeError converted) before the "
    "store and the three list containers share one setter body; selectable() of Pile/Columns/GridFlow is computed from the current contents; Frame repairs the focus when the focused "
    "header/footer is removed; every keypress returns None, the key or a forwarded result; each container keypress routes the key to its focus child only; get/set_focus_path walk the same "
    "two properties in the same order; focus moves by keys and cursor moves are guarded by the target's selectable(); the dict-like contents objects are well-founded mappings. "
    "Index validity after arbitrary edit histories and navigation targets are value-level and not decided (level 'other').",
    "DESIGN.md section 3, C08; engines E8, E11, E12, E6",
    "static analysis: guard dominance on the CFG, sibling body comparison, return-value provenance, def-use routing of the key to the focus expression, ABC well-foundedness",
)

CLAIMED["C11"] = _entry(
    "Static analysis decides the configuration discipline of the width arithmetic: every width function still branches on the text types and byte-encoding modes it must, with mode literals "
    "that set_byte_encoding stores; literals compared with the encoding *name* are canonical spellings; there is a single source of character widths (get_width is a pure wrapper of "
    "get_char_width); set_encoding defines all encoding state on every path; the byte-walking loops make progress; double-byte second-half tests are not dead. Width values, additivity and "
    "offset agreement for all code points are exhaustive value questions and are not decided (level 'other').",
    "DESIGN.md section 3, C11; engines E12 (COVER), E9 (TAB), E8, E6, E10",
    "static analysis: exhaustiveness of mode tests with CFG dominance, literal agreement against the codec registry, wrapper identity, all-paths-assign, loop progress, contradiction (dead comparison) rule",
)

CLAIMED["C03"] = _entry(
    "Static analysis decides: the undisplayable-text exception is contained in layout(); every text-consuming loop of the layout advances on every path (termination for every text and "
    "width); Text's reported rows and rendered lines come from the same layout with one canvas row per layout line; a character is marked as consumed-and-hidden only at the line's newline "
    "or under a space test; the alignment paddings are the specified closed forms; the double-byte look-back tests used by the break search are not dead. Completeness/no-duplication of "
    "characters, that no line spans a hard newline, and wrap optimality are value properties of offsets and are not decided (level 'other').",
    "DESIGN.md section 3, C03; engines E3, E10, E6",
    "static analysis: exception-escape, loop progress on the CFG, guard dominance of consume markers, closed-form comparison of alignment padding, contradiction rule",
)

CLAIMED["C02"] = _entry(
    "Static analysis decides the structural conditions of grid-equivalent composition: finalised-canvas guards on every mutator; no mutation of canvases or shard/cview lists that are shared "
    "with an operand (operands stay unchanged); cursor/pop-up coordinates translated by exactly the placement offset in every composition primitive, with the running offset of "
    "CanvasCombine/CanvasJoin recorded for the child and advanced by that child's extent; unit discipline in canvas.py; the attribute of the space replacing a cut wide character taken from "
    "just outside the kept range. Cell-for-cell equality with a grid model and content_delta round trips are value statements about the shard algebra and are not decided (level 'other').",
    "DESIGN.md section 3, C02; engines E7, E6, E2",
    "static analysis: guard dominance, canvas/list freshness dataflow on the CFG, canonical-form comparison of coordinate translations with placement offsets",
)

CLAIMED["C04"] = _entry(
    "Static analysis decides structural conditions of faithful painting: the per-cell loop's variables are never read after the loop (the insert-mode corner cell uses its own "
    "attribute/charset/text triple); HIDE_CURSOR first, SHOW_CURSOR only with a canvas cursor and after positioning; everything that invalidates the terminal contents forces a repaint and "
    "the screen buffer is recorded only after the write loop; the charset-switch test carries a first-run flag (the None sentinel collides with the normal charset); HTML text passes "
    "html.escape; palette caches are coherent and lookups total. The effect of the byte stream on a terminal across frame histories needs a terminal interpreter and is not decided (level 'other').",
    "DESIGN.md section 3, C04; engines E6, E11, E9",
    "static analysis: reaching-definition leak rule, CFG dominance of cursor/repaint emissions, sentinel-collision rule, taint-to-sanitiser rule for the HTML back-end, cache coherence rules",
)
CLAIMED["C17"] = _entry(
    "Static analysis decides the table and cache agreements that let an attribute name reach the terminal unchanged: palette tuples built and stored in the depth order every consumer's "
    "index map assumes, all five depths covered; every palette store announced to the back-end; the attrspec/escape caches written together and rebuilt after every terminal-property "
    "change; total palette lookups with default fallback; AttrMap's focus-map selection and fresh-canvas application; the attribute of a cut wide character's replacement space. "
    "Run alignment through layout/encoding and SGR decoding are value-level and not decided (level 'other').",
    "DESIGN.md section 3, C17; engines E9, E1, E7",
    "static analysis: producer/consumer table agreement with constant folding, store=>notify pairing, write=>rebuild cache discipline, guard dominance",
)

_PENDING = "check not built yet in this session (planned per DESIGN.md section 3); listed here until its static rules exist and pass on the pinned tree"
CLAIMED["C07"] = _entry(
    "Static analysis decides a set of necessary structural conditions of the ListBox window: the rows cut off below the focus item and the rows free below it come from one state, "
    "every screen-order use of the bottom-up list of items above the focus reverses it (render and mouse_event attribute rows to the same items), a parked focus position goes back to "
    "the walker only under an IndexError/KeyError handler, an empty body and non-integral positions are rejected with IndexError, every while loop makes progress, a button-1 press on a "
    "selectable item reaches change_focus() with the found position and row before it is forwarded, the canvas is padded at the bottom only, every item is measured and drawn at (maxcol,), "
    "render() cross-checks calculated against rendered rows for all three groups, the two bundled walkers step positions identically, the focus flag is forwarded. "
    "That the window is gap-free and contains the focus for every history is arithmetic over runtime state and is not decided (level 'other').",
    "DESIGN.md section 3, C07",
    "static analysis: CFG dominance / must-pass-through, reaching definitions with linear canonical forms, sibling comparison, loop-progress analysis",
)
NOT_APPLICABLE = {pid: _PENDING for pid in [f"C{i:02d}" for i in range(1, 21)] if pid not in CLAIMED}

NOTES = (
    "Technique family: static analysis only. Every check parses /repo/urwid's current working tree on every run (no caches across runs), "
    "reports file:line + rule + construct, exits 0/1/2 (2 = ANALYSIS-ERROR: the machinery could not decide, e.g. an anchor vanished). "
    "Genuine defects found are repaired by fix: commits in /repo and listed in /verif/known_findings.json."
)
