"""Statement-level control-flow graph for the statement kinds urwid uses.

Nodes: one per simple statement, per branch test (If/While), per loop head (For), per
`with` header, per except-handler entry, plus ENTRY, EXIT (normal return / fall off the end)
and RAISE (exception leaves the function).  Edges carry a label:
  'n' normal, 'T'/'F' branch outcome (for a For head: T = next item, F = exhausted),
  'e' exceptional.
`finally` bodies are duplicated per way of entering them (normal, exceptional, return,
break, continue), the way CPython compiles them, so path queries stay exact.
Every statement that contains a call, subscript, attribute access, arithmetic, comparison,
iteration or `raise` may raise; constant/name-only statements, `pass`, `break`, `continue`,
`global` do not.
"""

from __future__ import annotations

import ast

from .model import AnalysisError


class Node:
    __slots__ = ("id", "kind", "ast", "stmt", "succ", "pred", "copy_of")

    def __init__(self, id_, kind, ast_node=None, stmt=None):
        self.id = id_
        self.kind = kind  # entry exit raise stmt test for with handler return raisestmt break continue join
        self.ast = ast_node  # the expression / statement evaluated at this node
        self.stmt = stmt if stmt is not None else ast_node  # enclosing statement
        self.succ: list[tuple[Node, str]] = []
        self.pred: list[tuple[Node, str]] = []

    @property
    def lineno(self):
        return getattr(self.stmt, "lineno", getattr(self.ast, "lineno", 0))

    def __repr__(self):
        return f"<N{self.id} {self.kind} L{self.lineno}>"


_CATCH_ALL = {"BaseException"}


def _may_raise(node: ast.AST) -> bool:
    for n in ast.walk(node):
        if isinstance(
            n,
            (
                ast.Call,
                ast.Subscript,
                ast.Attribute,
                ast.BinOp,
                ast.UnaryOp,
                ast.Compare,
                ast.Raise,
                ast.Assert,
                ast.Await,
                ast.Yield,
                ast.YieldFrom,
                ast.Import,
                ast.ImportFrom,
                ast.Starred,
                ast.Delete,
                ast.For,
                ast.comprehension,
                ast.JoinedStr,
            ),
        ):
            return True
        if isinstance(n, (ast.Tuple, ast.List)) and isinstance(getattr(n, "ctx", None), ast.Store):
            return True  # unpacking
    return False


class _Frame:
    """One enclosing construct on the builder's context stack."""

    def __init__(self, kind, **kw):
        self.kind = kind  # 'loop' | 'try' | 'finally' | 'suppress'
        self.__dict__.update(kw)


class CFG:
    def __init__(self, func_node: ast.AST, body: list[ast.stmt] | None = None):
        self.nodes: list[Node] = []
        self.entry = self._new("entry")
        self.exit = self._new("exit")
        self.raise_exit = self._new("raise")
        self.func_node = func_node
        if body is None:
            body = func_node.body if not isinstance(func_node, ast.Lambda) else [ast.Return(value=func_node.body, lineno=func_node.lineno, col_offset=0)]
        self._stack: list[_Frame] = []
        frontier = self._seq(body, [(self.entry, "n")])
        for p, lab in frontier:
            self._edge(p, self.exit, lab)
        self.by_stmt: dict[int, list[Node]] = {}
        for n in self.nodes:
            if n.stmt is not None:
                self.by_stmt.setdefault(id(n.stmt), []).append(n)

    # -------------------------------------------------------------- construction
    def _new(self, kind, a=None, stmt=None) -> Node:
        n = Node(len(self.nodes), kind, a, stmt)
        self.nodes.append(n)
        return n

    def _edge(self, a: Node, b: Node, lab: str):
        if (b, lab) not in a.succ:
            a.succ.append((b, lab))
            b.pred.append((a, lab))

    def _link(self, frontier, node):
        for p, lab in frontier:
            self._edge(p, node, lab)

    def _seq(self, stmts, frontier):
        for s in stmts:
            if not frontier:
                # unreachable code still gets nodes (so rules can find it) but no predecessors
                pass
            frontier = self._stmt(s, frontier)
        return frontier

    def _exc_targets(self, depth=None):
        """Where an exception raised at the current stack depth goes.  Returns list of
        target nodes; builds `finally` copies lazily (one exceptional copy per try)."""
        i = len(self._stack) if depth is None else depth
        targets = []
        while i > 0:
            i -= 1
            fr = self._stack[i]
            if fr.kind == "try":
                targets.extend(fr.handler_nodes)
                if fr.catch_all:
                    return targets
            elif fr.kind == "suppress":
                targets.append(fr.join)
                if fr.catch_all:
                    return targets
            elif fr.kind == "finally":
                if fr.exc_copy is None:
                    # build the exceptional copy in the context *outside* this try
                    saved = self._stack
                    self._stack = saved[:i]
                    head = self._new("join", None, fr.stmt)
                    fr.exc_copy = head
                    out = self._seq(fr.body, [(head, "n")])
                    outer = self._exc_targets()
                    for p, lab in out:
                        for t in outer:
                            self._edge(p, t, "e")
                    self._stack = saved
                targets.append(fr.exc_copy)
                return targets
        targets.append(self.raise_exit)
        return targets

    def _raise_edges(self, node: Node):
        for t in self._exc_targets():
            self._edge(node, t, "e")

    def _simple(self, kind, s, frontier, expr=None, may_raise=None):
        n = self._new(kind, expr if expr is not None else s, s)
        self._link(frontier, n)
        mr = _may_raise(expr if expr is not None else s) if may_raise is None else may_raise
        if mr:
            self._raise_edges(n)
        return n

    def _run_finalizers(self, frontier, upto_kind=None, upto_frame=None):
        """Inline copies of enclosing `finally` bodies from innermost outwards until the frame
        *upto_frame* (exclusive) or the function boundary."""
        i = len(self._stack)
        saved = self._stack
        while i > 0:
            i -= 1
            fr = saved[i]
            if fr is upto_frame:
                break
            if fr.kind == "finally":
                self._stack = saved[:i]
                frontier = self._seq(fr.body, frontier)
        self._stack = saved
        return frontier

    def _stmt(self, s, frontier):
        if isinstance(s, (ast.If,)):
            t = self._simple("test", s, frontier, s.test)
            a = self._seq(s.body, [(t, "T")])
            b = self._seq(s.orelse, [(t, "F")]) if s.orelse else [(t, "F")]
            return a + b
        if isinstance(s, ast.While):
            t = self._simple("test", s, frontier, s.test)
            fr = _Frame("loop", head=t, breaks=[], stmt=s)
            self._stack.append(fr)
            body_out = self._seq(s.body, [(t, "T")])
            self._stack.pop()
            self._link(body_out, t)
            const_true = isinstance(s.test, ast.Constant) and bool(s.test.value)
            out = [] if const_true else [(t, "F")]
            if s.orelse:
                out = self._seq(s.orelse, out)
            return out + fr.breaks
        if isinstance(s, (ast.For, ast.AsyncFor)):
            h = self._simple("for", s, frontier, s, may_raise=True)
            fr = _Frame("loop", head=h, breaks=[], stmt=s)
            self._stack.append(fr)
            body_out = self._seq(s.body, [(h, "T")])
            self._stack.pop()
            self._link(body_out, h)
            out = [(h, "F")]
            if s.orelse:
                out = self._seq(s.orelse, out)
            return out + fr.breaks
        if isinstance(s, ast.Break):
            n = self._simple("break", s, frontier, may_raise=False)
            loop = self._innermost("loop")
            out = self._run_finalizers([(n, "n")], upto_frame=loop)
            loop.breaks.extend(out)
            return []
        if isinstance(s, ast.Continue):
            n = self._simple("continue", s, frontier, may_raise=False)
            loop = self._innermost("loop")
            out = self._run_finalizers([(n, "n")], upto_frame=loop)
            self._link(out, loop.head)
            return []
        if isinstance(s, ast.Return):
            mr = _may_raise(s.value) if s.value is not None else False
            n = self._simple("return", s, frontier, may_raise=mr)
            out = self._run_finalizers([(n, "n")])
            self._link(out, self.exit)
            return []
        if isinstance(s, ast.Raise):
            n = self._simple("raisestmt", s, frontier, may_raise=True)
            return []
        if isinstance(s, (ast.With, ast.AsyncWith)):
            n = self._simple("with", s, frontier, s, may_raise=True)
            sup = self._suppress_types(s)
            if sup is not None:
                join = self._new("join", None, s)
                fr = _Frame("suppress", join=join, catch_all=bool(sup & _CATCH_ALL), types=sup, stmt=s)
                self._stack.append(fr)
                out = self._seq(s.body, [(n, "n")])
                self._stack.pop()
                self._link(out, join)
                return [(join, "n")]
            return self._seq(s.body, [(n, "n")])
        if isinstance(s, ast.Try) or type(s).__name__ == "TryStar":
            return self._try(s, frontier)
        if isinstance(s, (ast.FunctionDef, ast.AsyncFunctionDef, ast.ClassDef)):
            n = self._simple("stmt", s, frontier, may_raise=bool(s.decorator_list))
            return [(n, "n")]
        if isinstance(s, (ast.Pass, ast.Global, ast.Nonlocal)):
            n = self._simple("stmt", s, frontier, may_raise=False)
            return [(n, "n")]
        if isinstance(
            s, (ast.Assign, ast.AugAssign, ast.AnnAssign, ast.Expr, ast.Delete, ast.Assert, ast.Import, ast.ImportFrom)
        ):
            n = self._simple("stmt", s, frontier)
            return [(n, "n")]
        raise AnalysisError(f"CFG: unsupported statement {type(s).__name__} at line {getattr(s, 'lineno', '?')}")

    def _innermost(self, kind):
        for fr in reversed(self._stack):
            if fr.kind == kind:
                return fr
        raise AnalysisError("CFG: break/continue outside loop")

    @staticmethod
    def _suppress_types(s):
        for it in s.items:
            e = it.context_expr
            if isinstance(e, ast.Call):
                f = e.func
                name = f.id if isinstance(f, ast.Name) else f.attr if isinstance(f, ast.Attribute) else None
                if name == "suppress":
                    return {ast.unparse(a).split(".")[-1] for a in e.args}
        return None

    def _try(self, s, frontier):
        fin = None
        if s.finalbody:
            fin = _Frame("finally", body=s.finalbody, exc_copy=None, stmt=s)
            self._stack.append(fin)
        handler_nodes = []
        catch_all = False
        for h in s.handlers:
            hn = self._new("handler", h, h)
            handler_nodes.append(hn)
            if h.type is None:
                catch_all = True
            else:
                names = [h.type] if not isinstance(h.type, ast.Tuple) else h.type.elts
                if any(ast.unparse(x).split(".")[-1] in _CATCH_ALL for x in names):
                    catch_all = True
        out = []
        if s.handlers:
            fr = _Frame("try", handler_nodes=handler_nodes, catch_all=catch_all, stmt=s)
            self._stack.append(fr)
            body_out = self._seq(s.body, frontier)
            self._stack.pop()
        else:
            body_out = self._seq(s.body, frontier)
        if s.orelse:
            body_out = self._seq(s.orelse, body_out)
        out.extend(body_out)
        for h, hn in zip(s.handlers, handler_nodes):
            out.extend(self._seq(h.body, [(hn, "n")]))
        if fin is not None:
            self._stack.pop()
            out = self._seq(s.finalbody, out)
        return out

    # -------------------------------------------------------------- queries
    def stmt_nodes(self, stmt: ast.AST) -> list[Node]:
        return self.by_stmt.get(id(stmt), [])

    def find(self, pred) -> list[Node]:
        return [n for n in self.nodes if n.ast is not None and pred(n)]

    def reachable(self, starts, avoid=(), labels=None, include_start=False) -> set:
        """Nodes reachable from *starts* (successors of the starts) without entering *avoid*.
        labels: iterable of allowed edge labels, or None for all."""
        avoid = set(avoid)
        seen = set()
        work = []
        for s in starts:
            if include_start and s not in avoid:
                seen.add(s)
            work.append(s)
        while work:
            n = work.pop()
            for t, lab in n.succ:
                if labels is not None and lab not in labels:
                    continue
                if t in avoid or t in seen:
                    continue
                seen.add(t)
                work.append(t)
        return seen

    def reachable_from_edges(self, edges, avoid=(), labels=None) -> set:
        """Like reachable(), but starting from specific (node,label) out-edges."""
        avoid = set(avoid)
        seen = set()
        work = []
        for n, want in edges:
            for t, lab in n.succ:
                if lab == want and t not in avoid and t not in seen:
                    seen.add(t)
                    work.append(t)
        while work:
            n = work.pop()
            for t, lab in n.succ:
                if labels is not None and lab not in labels:
                    continue
                if t in avoid or t in seen:
                    continue
                seen.add(t)
                work.append(t)
        return seen

    def live(self, labels=None) -> set:
        return self.reachable([self.entry], labels=labels, include_start=True)

    def must_pass(self, src: Node, through, ends=None, labels=None) -> bool:
        """True iff every path from *src* (exclusive) to any of *ends* goes through a node of *through*."""
        ends = ends if ends is not None else [self.exit]
        r = self.reachable([src], avoid=through, labels=labels)
        return not any(e in r for e in ends)

    def dominated(self, node: Node, by, labels=None) -> bool:
        """True iff every path from ENTRY to *node* passes a node of *by* first."""
        by = set(by)
        if node in by:
            return True
        r = self.reachable([self.entry], avoid=by, labels=labels, include_start=True)
        return node not in r

    def witness_path(self, src: Node, ends, avoid=(), labels=None):
        """A shortest path (list of nodes) from src to one of ends avoiding *avoid*, or None."""
        avoid = set(avoid)
        ends = set(ends)
        prev = {src: None}
        q = [src]
        while q:
            nq = []
            for n in q:
                for t, lab in n.succ:
                    if labels is not None and lab not in labels:
                        continue
                    if t in avoid or t in prev:
                        continue
                    prev[t] = n
                    if t in ends:
                        path = [t]
                        while prev[path[-1]] is not None:
                            path.append(prev[path[-1]])
                        return list(reversed(path))
                    nq.append(t)
            q = nq
        return None


def describe_path(path) -> str:
    return " -> ".join(f"L{n.lineno}:{n.kind}" for n in path) if path else ""
