"""Constant folding of module-level *tables*: literals, arithmetic, displays, comprehensions over
folded values, a whitelist of pure builtins, f-strings, and inlining of same-module functions whose
body is straight-line assignments plus one return.  This is what a compiler's constant
propagation does; nothing with loops (other than comprehensions), attribute access on objects or
side effects is interpreted.  A table that cannot be folded raises AnalysisError."""

from __future__ import annotations

import ast
import operator

from .model import AnalysisError, FuncInfo, Module, Project

_BIN = {
    ast.Add: operator.add, ast.Sub: operator.sub, ast.Mult: operator.mul, ast.FloorDiv: operator.floordiv,
    ast.Div: operator.truediv, ast.Mod: operator.mod, ast.BitAnd: operator.and_, ast.BitOr: operator.or_,
    ast.BitXor: operator.xor, ast.LShift: operator.lshift, ast.RShift: operator.rshift, ast.Pow: operator.pow,
}  # fmt: skip
_CMP = {
    ast.Eq: operator.eq, ast.NotEq: operator.ne, ast.Lt: operator.lt, ast.LtE: operator.le, ast.Gt: operator.gt,
    ast.GtE: operator.ge, ast.In: lambda a, b: a in b, ast.NotIn: lambda a, b: a not in b, ast.Is: operator.is_,
    ast.IsNot: operator.is_not,
}  # fmt: skip
_SAFE = {
    "zip": zip, "range": range, "len": len, "ord": ord, "chr": chr, "enumerate": enumerate, "str": str, "int": int,
    "tuple": tuple, "list": list, "dict": dict, "set": set, "frozenset": frozenset, "min": min, "max": max, "sum": sum,
    "sorted": sorted, "reversed": reversed, "abs": abs, "bool": bool, "float": float, "bytes": bytes, "round": round,
    "divmod": divmod, "repr": repr, "any": any, "all": all,
}  # fmt: skip


class Unfoldable(Exception):
    pass


class Folder:
    def __init__(self, p: Project, m: Module):
        self.p = p
        self.m = m
        self.cache: dict[str, object] = {}
        self.busy: set[str] = set()

    def name(self, nm: str):
        if nm in self.cache:
            return self.cache[nm]
        if nm in self.busy:
            raise Unfoldable(f"cyclic constant {nm}")
        b = self.m.bindings.get(nm)
        if b is None:
            if nm in _SAFE:
                return _SAFE[nm]
            raise Unfoldable(f"name {nm} is not a module-level constant")
        if b[0] == "assign":
            self.busy.add(nm)
            try:
                v = self.ev(b[1], {})
            finally:
                self.busy.discard(nm)
            self.cache[nm] = v
            return v
        if b[0] == "func":
            return b[1]
        if b[0] == "from":
            tm = self.p.modules.get(b[1])
            if tm is not None:
                return Folder(self.p, tm).name(b[2])
        raise Unfoldable(f"name {nm} is bound by {b[0]}, not a constant")

    def ev(self, e, env):
        if isinstance(e, ast.Constant):
            return e.value
        if isinstance(e, ast.Name):
            if e.id in env:
                return env[e.id]
            return self.name(e.id)
        if isinstance(e, ast.Tuple):
            return tuple(self._elts(e.elts, env))
        if isinstance(e, ast.List):
            return list(self._elts(e.elts, env))
        if isinstance(e, ast.Set):
            return set(self._elts(e.elts, env))
        if isinstance(e, ast.Dict):
            out = {}
            for k, v in zip(e.keys, e.values):
                if k is None:
                    out.update(self.ev(v, env))
                else:
                    out[self.ev(k, env)] = self.ev(v, env)
            return out
        if isinstance(e, ast.BinOp) and type(e.op) in _BIN:
            return _BIN[type(e.op)](self.ev(e.left, env), self.ev(e.right, env))
        if isinstance(e, ast.UnaryOp):
            v = self.ev(e.operand, env)
            if isinstance(e.op, ast.USub):
                return -v
            if isinstance(e.op, ast.Not):
                return not v
            if isinstance(e.op, ast.Invert):
                return ~v
            return +v
        if isinstance(e, ast.BoolOp):
            vals = None
            for x in e.values:
                vals = self.ev(x, env)
                if isinstance(e.op, ast.And) and not vals:
                    return vals
                if isinstance(e.op, ast.Or) and vals:
                    return vals
            return vals
        if isinstance(e, ast.Compare):
            left = self.ev(e.left, env)
            for op, c in zip(e.ops, e.comparators):
                right = self.ev(c, env)
                if not _CMP[type(op)](left, right):
                    return False
                left = right
            return True
        if isinstance(e, ast.IfExp):
            return self.ev(e.body, env) if self.ev(e.test, env) else self.ev(e.orelse, env)
        if isinstance(e, ast.Subscript):
            v = self.ev(e.value, env)
            s = e.slice
            if isinstance(s, ast.Slice):
                return v[slice(*(self.ev(x, env) if x is not None else None for x in (s.lower, s.upper, s.step)))]
            return v[self.ev(s, env)]
        if isinstance(e, ast.JoinedStr):
            parts = []
            for v in e.values:
                if isinstance(v, ast.Constant):
                    parts.append(v.value)
                else:
                    val = self.ev(v.value, env)
                    if v.conversion == 115:
                        val = str(val)
                    elif v.conversion == 114:
                        val = repr(val)
                    spec = self.ev(v.format_spec, env) if v.format_spec is not None else ""
                    parts.append(format(val, spec))
            return "".join(parts)
        if isinstance(e, (ast.GeneratorExp, ast.ListComp, ast.SetComp)):
            res = list(self._comp(e.generators, 0, env, lambda en: self.ev(e.elt, en)))
            return set(res) if isinstance(e, ast.SetComp) else res
        if isinstance(e, ast.DictComp):
            return dict(self._comp(e.generators, 0, env, lambda en: (self.ev(e.key, en), self.ev(e.value, en))))
        if isinstance(e, ast.Call):
            return self._call(e, env)
        if isinstance(e, ast.Attribute):
            # enum-like constants and str methods are not folded
            raise Unfoldable(f"attribute access {ast.unparse(e)}")
        if isinstance(e, ast.Lambda):
            return e
        raise Unfoldable(f"expression {type(e).__name__}: {ast.unparse(e)[:60]}")

    def _elts(self, elts, env):
        for x in elts:
            if isinstance(x, ast.Starred):
                yield from self.ev(x.value, env)
            else:
                yield self.ev(x, env)

    def _bind(self, target, val, env):
        if isinstance(target, ast.Name):
            env[target.id] = val
        elif isinstance(target, (ast.Tuple, ast.List)):
            vals = list(val)
            if len(vals) != len(target.elts):
                raise Unfoldable("unpack length mismatch")
            for t, v in zip(target.elts, vals):
                self._bind(t, v, env)
        else:
            raise Unfoldable("complex comprehension target")

    def _comp(self, gens, i, env, leaf):
        if i == len(gens):
            yield leaf(env)
            return
        g = gens[i]
        for item in self.ev(g.iter, env):
            en = dict(env)
            self._bind(g.target, item, en)
            if all(self.ev(c, en) for c in g.ifs):
                yield from self._comp(gens, i + 1, en, leaf)

    def _call(self, e: ast.Call, env):
        f = e.func
        args = list(self._elts(e.args, env))
        kwargs = {k.arg: self.ev(k.value, env) for k in e.keywords if k.arg}
        if isinstance(f, ast.Name):
            if f.id in env:
                raise Unfoldable("call of local")
            if f.id in _SAFE and f.id not in self.m.bindings:
                r = _SAFE[f.id](*args, **kwargs)
                return list(r) if f.id in ("zip", "enumerate", "reversed", "range") and not isinstance(r, range) else r
            target = self.name(f.id)
            if isinstance(target, FuncInfo):
                return self._inline(target, args, kwargs)
            raise Unfoldable(f"call of {f.id}")
        if isinstance(f, ast.Attribute) and f.attr in ("join", "format", "upper", "lower", "replace", "split", "encode", "decode", "items", "keys", "values", "get", "copy"):
            recv = self.ev(f.value, env)
            if isinstance(recv, (str, bytes, dict, list, tuple)):
                r = getattr(recv, f.attr)(*args, **kwargs)
                return list(r) if f.attr in ("items", "keys", "values") else r
        raise Unfoldable(f"call {ast.unparse(f)}")

    def _inline(self, fi: FuncInfo, args, kwargs):
        env = {}
        params = fi.params
        if len(args) > len(params):
            raise Unfoldable("too many args")
        for pn, a in zip(params, args):
            env[pn] = a
        env.update(kwargs)
        for st in fi.node.body:
            if isinstance(st, ast.Expr) and isinstance(st.value, ast.Constant):
                continue  # docstring
            if isinstance(st, ast.Assign) and len(st.targets) == 1:
                self._bind(st.targets[0], self.ev(st.value, env), env)
            elif isinstance(st, ast.Return):
                return self.ev(st.value, env)
            else:
                raise Unfoldable(f"function {fi.name} is not straight-line")
        return None


def fold_module_name(p: Project, m: Module, name: str):
    try:
        return Folder(p, m).name(name)
    except Unfoldable as e:
        raise AnalysisError(f"cannot fold table {m.name}.{name}: {e}") from e
    except Exception as e:  # noqa: BLE001
        raise AnalysisError(f"cannot fold table {m.name}.{name}: {type(e).__name__}: {e}") from e


def fold_expr(p: Project, m: Module, e: ast.AST, env=None):
    try:
        return Folder(p, m).ev(e, env or {})
    except Unfoldable as ex:
        raise AnalysisError(f"cannot fold `{ast.unparse(e)[:80]}` in {m.name}: {ex}") from ex
    except Exception as ex:  # noqa: BLE001
        raise AnalysisError(f"cannot fold `{ast.unparse(e)[:80]}` in {m.name}: {type(ex).__name__}: {ex}") from ex
