#!/venv/bin/python
"""Regenerate MANIFEST.json from verif/registry.py (keeps the manifest valid and in sync)."""
import json, os, sys
sys.path.insert(0, os.path.dirname(os.path.abspath(__file__)))
from verif import registry

checks = []
for pid, info in sorted(registry.CLAIMED.items()):
    checks.append({
        "property_id": pid,
        "quick_cmd": f"/venv/bin/python -m verif.check {pid} --tier quick",
        "thorough_cmd": f"/venv/bin/python -m verif.check {pid} --tier thorough",
        "evidence_file": f"/verif/evidence/{pid}.json",
        "replay_cmd_template": "/venv/bin/python -m verif.check --replay {path}",
        "engine": "verif",
        "level_claimed": {"category": "other", "text": info["level_text"], "design_ref": info["design_ref"]},
        "level_note": info["level_note"],
        "technique": info["technique"],
    })
m = {
    "version": 1,
    "setup_cmd": "/venv/bin/python -m verif.selfcheck",
    "hooks": {
        "guard": "URWID_VERIF",
        "enable": "no source hooks are needed: every check parses /repo/urwid as it is (the guard name is reserved and unused)",
        "baseline_off_cmd": "cd /repo && /venv/bin/python -m pytest -ra -q -p no:cacheprovider --timeout=900 --continue-on-collection-errors",
        "source_commits": [],
        "add_only": True,
    },
    "engines": [{
        "name": "verif",
        "path": "/verif/verif",
        "serves_properties": sorted(registry.CLAIMED),
        "kind_free_text": "repository-specific static analysis in pure stdlib Python (ast): project model with MRO/property/alias resolution, statement CFG with exception and finally edges, and per-property rule engines (INV, CANV/GUARD, DIM, EXC, SNAP, WRAP, PASS/ORDER/PAIR, SIB, TAB, PROG, WRITER, RET/COVER/CLOS). Nothing of urwid is imported or executed.",
    }],
    "checks": checks,
    "notes": registry.NOTES,
    "not_applicable": [{"property_id": k, "reason": v} for k, v in sorted(registry.NOT_APPLICABLE.items())],
}
with open(os.path.join(os.path.dirname(os.path.abspath(__file__)), "MANIFEST.json"), "w") as fh:
    json.dump(m, fh, indent=1)
    fh.write("\n")
print("MANIFEST.json:", len(checks), "checks,", len(m["not_applicable"]), "not applicable")
